"""C10 — a dependency survives the round trip through its PEP 508 text."""
from __future__ import annotations

import re
from typing import Any

from . import core, gen_dep as GD, gen_marker as G, marker_common as MC, vc_common as V

PROP = "C10"
LEAN_MODULE = "PoetryVerif.Props.C10"
RULE = ("dependencies as constructor descriptions and as PEP 508 texts: names/extras over the PEP 503/685 alphabet (mixed case, "
        "runs of - _ .), 0-3 extras, conjunctions of 0-3 clauses over == != < <= > >= ~= ==X.* !=X.* (constructors also ^ ~ and bare "
        "versions), markers of the C06 domain with 1-4 leaves incl. extra clauses, python ranges through the python_versions "
        "setter, http(s) archive URLs (wheel / sdist / opaque, query, #subdirectory), git URLs in https/http/ssh/ssh-colon/git/"
        "file/scp-like form with and without user, port, branch/tag/rev and sub-directory; each object is printed with "
        "to_pep_508, checked by the reference parser, parsed back and compared on name, extras, kind, source URL/reference/"
        "sub-directory, regular probe versions and a grid of environments; each text is re-spelt (blanks/tabs, quotes, name and "
        "extra case/separators) and must parse to the same dependency. Model vs code: parse dumps, printed texts, membership and "
        "truth vectors; ParsedUrl.parse on in-grammar and near-grammar URLs; a mutated (mostly malformed) stream. "
        "Non-trivial = the object could be built and printed; distinct = distinct printed text.")
ASSUMPTIONS = [
    "lark's LALR engine/contextual lexer, Python `re`, urllib.parse (CPython 3.12), pathlib and posixpath are trusted; the hand "
    "recognisers of pep508.lark, of the wheel file-name regex and of the restricted git-URL grammar are tied to them by the parse, "
    "link and giturl streams of this run; git URLs outside the grammar, file: URLs and local paths are counted as unmodelled "
    "(the property oracle on the real code still covers them where no file system is needed)",
    "reference parser = packaging 26.3 (/venv site-packages, separate process)",
    "probe versions are regular for both constraints (no probe shares the release of a bound without being equal to it); "
    "environment values are final releases",
    "the constraint of a direct-origin (URL/VCS) dependency is 'implicitly given' (dependency.py, __eq__): it is compared for "
    "registry dependencies only; a URL dependency built by the constructor has `*`, the re-parsed one carries the wheel's version",
    "branch / tag / rev are one `source_reference` in the text: after the round trip the reference is compared, not which of the "
    "three constructor arguments carried it",
    "a wheel-URL requirement is generated with the wheel's own distribution name (a mismatching pair is not a meaningful "
    "requirement); one mismatching witness is kept in the corpus and routed through the known findings",
]

K_WHEEL = "wheel-url-name-from-filename"
K_ARCHIVE = "registry-name-with-archive-suffix"
K_FILE_NONE = "git-file-url-empty-host-prints-None"
K_SUBDIR_DOT = "vcs-subdirectory-with-dot-becomes-revision"
K_COMMENT = "marker-literal-with-blank-hash-cut-as-comment"
K_INEXTRAS = "in-extras-from-disjunctive-marker"
K_LOCAL = "local-version-bound-printed-with-ordered-operator"

CORPUS_TEXTS = [
    "foo", "Foo_Bar[A_b,c.D] >=1,<2", "foo (>=1.0,!=1.5,<2.0) ; python_version >= '3.8'", "foo[]", "foo==1.0.*", "foo!=1.0.*",
    "foo ~=1.4.2", "foo==1.0+local", "foo>=1a1,<=2.post1", "foo @ https://example.com/foo-1.0.tar.gz",
    "foo @ https://example.com/a/foo-1.0-py3-none-any.whl ; os_name == 'nt'", "foo[x] @ https://example.com/foo.zip#subdirectory=sub",
    "foo @ git+https://github.com/org/repo.git", "foo @ git+https://github.com/org/repo.git@main#subdirectory=pkg/core",
    "foo @ git+ssh://git@github.com/org/repo.git@v1.0", "foo @ git+ssh://git@github.com:org/repo.git@v1.0",
    "foo @ git+ssh://git@github.com:2222/org/repo.git", "foo @ git+git://h.com/a/b", "foo @ git+file://localhost/srv/repo.git@abc",
    "foo @ git+http://u@h:8080/a.git@feature/x#subdirectory=a_b ; extra == 'Test_X' and python_version < '3.12'",
    "foo ; extra == 'a' or extra == 'b'", "foo>=1 ; (python_version >= '3.8' and python_version < '3.11') or sys_platform == 'win32'",
    "foo # a comment", "foo>=1.0 # comment ; python_version >= '3.8'", "foo @ http://x/y.zip ;python_version>'3'",
    "foo @ https://h/p/foo-1.0-1-py3-none-any.whl", "foo @ https://h/foo-bar-1.0-py3-none-any.whl", "foo @ https://h/x.whl",
    "foo @ git+https://h/a/b.git#egg=foo", "foo @ git://h.com/a/b.git#subdirectory=x", "foo @ hg+https://h/a", "foo @ ./local/path",
    "foo @ file:///abs/path/foo.zip", "foo @", "foo[", "foo>=", "foo ; python_version", "", " ", "foo @ https://h", "foo @ https:/h/a.zip",
    "foo @ HTTPS://Example.COM/A.zip", "foo @ https://h/a%20b.zip", "foo-", "-foo", "foo @ https://h/a.zip?x=1#subdirectory=s&egg=foo",
]
# witnesses of the finding classes; the classes repaired in poetry-core since (f169cc2, ee3a18f, 99e1c95) stay as regressions
CORPUS_FINDINGS = [
    (K_WHEEL, {"ctor": {"kind": "url", "name": "X1", "url": "https://example.com/foo-1.0-py3-none-any.whl", "directory": None, "extras": [], "marker": "",
                        "python": None, "py_first": False}}),
    (K_ARCHIVE, {"ctor": {"kind": "registry", "name": "foo.zip", "constraint": ">=1.0", "extras": [], "marker": "", "python": None, "py_first": False}}),
    (K_FILE_NONE, {"ctor": {"kind": "vcs", "name": "foo", "source": "file:///srv/repo.git", "form": "file", "branch": None, "tag": "v1", "rev": None,
                            "directory": None, "extras": [], "marker": "", "python": None, "py_first": False}}),
    (K_SUBDIR_DOT, {"ctor": {"kind": "vcs", "name": "foo", "source": "https://github.com/org/repo.git", "branch": None, "tag": None, "rev": None,
                             "directory": "src/my.pkg", "extras": [], "marker": "", "python": None, "py_first": False}}),
    (K_COMMENT, {"ctor": {"kind": "registry", "name": "foo", "constraint": "*", "extras": [], "marker": '"SMP #1" in platform_version', "python": None, "py_first": False}}),
    (K_INEXTRAS, {"ctor": {"kind": "registry", "name": "foo", "constraint": "*", "extras": [], "marker": 'python_version >= "3.7" or extra == "b"', "python": "^3.9",
                           "py_first": False}}),
    (K_LOCAL, {"ctor": {"kind": "registry", "name": "foo", "constraint": "!=2+local,~=2.0.0", "extras": [], "marker": "", "python": None, "py_first": False}}),
]


# ---------------------------------------------------------------------------------------- real objects → canonical dumps
def opt(s: Any) -> str:
    return "-" if s is None else "=" + str(s)


def kind_dump(d: Any) -> str:
    from poetry.core.packages.directory_dependency import DirectoryDependency
    from poetry.core.packages.file_dependency import FileDependency
    from poetry.core.packages.url_dependency import URLDependency
    from poetry.core.packages.vcs_dependency import VCSDependency
    if isinstance(d, VCSDependency):
        return f"vcs({d.vcs}|{d.source}|{opt(d.branch)}|{opt(d.tag)}|{opt(d.rev)}|{opt(d.directory)})"
    if isinstance(d, URLDependency):
        return f"url({d.url}|{opt(d.directory)})"
    if isinstance(d, FileDependency):
        return "file"
    if isinstance(d, DirectoryDependency):
        return "directory"
    return "registry"


def kind_tag(d: Any) -> str:
    return kind_dump(d).split("(")[0]


def spec_dump(d: Any) -> str:
    return "|".join([d.pretty_name, d.name, ",".join(sorted(d.extras)), opt(d.source_type), opt(d.source_url), opt(d.source_reference),
                     opt(d.source_subdirectory)])


def text_of(fn: Any) -> str:
    try:
        return "=" + fn()
    except Exception as e:  # noqa: BLE001
        return "!" + MC.errname(e)


def dep_report(d: Any, probes: list[Any], envs: list[dict[str, Any]]) -> list[str]:
    return ["ok", spec_dump(d), kind_dump(d), V.dump(d.constraint), d._pretty_constraint, MC.mdump(d.marker), d.python_versions,
            ",".join(d.in_extras), ("1" if d.is_optional() else "0") + ("1" if d.is_activated() else "0"),
            text_of(lambda: d.to_pep_508()), text_of(lambda: d.to_pep_508(with_extras=False)), V.bits(d.constraint, probes), MC.truth(d.marker, envs)]


def real_parse(text: str) -> Any:
    from poetry.core.packages.dependency import Dependency
    from poetry.core.version.requirements import parse_requirement
    parse_requirement.cache_clear()
    return Dependency.create_from_pep_508(text)


def real_build(c: dict[str, Any]) -> Any:
    from poetry.core.packages.dependency import Dependency
    from poetry.core.packages.url_dependency import URLDependency
    from poetry.core.packages.vcs_dependency import VCSDependency
    if c["kind"] == "registry":
        d: Any = Dependency(c["name"], c["constraint"], extras=c["extras"])
    elif c["kind"] == "url":
        d = URLDependency(c["name"], c["url"], directory=c.get("directory"), extras=c["extras"])
    else:
        d = VCSDependency(c["name"], "git", c["source"], branch=c.get("branch"), tag=c.get("tag"), rev=c.get("rev"),
                          directory=c.get("directory"), extras=c["extras"])

    def set_m() -> None:
        if c.get("marker"):
            d.marker = c["marker"]

    def set_p() -> None:
        if c.get("python"):
            d.python_versions = c["python"]
    if c.get("py_first"):
        set_p()
        set_m()
    else:
        set_m()
        set_p()
    if c.get("in_extras"):
        d._in_extras = list(c["in_extras"])      # as poetry.core.factory does for members of [extras]
    return d


def ctor_line(c: dict[str, Any], probes: list[str], eenc: list[str]) -> str:
    tail = [opt(c.get("marker") or None), opt(c.get("python")), "1" if c.get("py_first") else "0", ",".join(c.get("in_extras") or []),
            *probes, "|", *eenc]
    ex = ",".join(c["extras"])
    if c["kind"] == "registry":
        return core.line("depmk", "registry", c["name"], c["constraint"], ex, *tail)
    if c["kind"] == "url":
        return core.line("depmk", "url", c["name"], c["url"], opt(c.get("directory")), ex, *tail)
    return core.line("depmk", "vcs", c["name"], "git", c["source"], opt(c.get("branch")), opt(c.get("tag")), opt(c.get("rev")),
                     opt(c.get("directory")), ex, *tail)


PROBES = ["0.0.1", "0.5", "0.9.9", "1.0.1", "1.1", "1.2.5", "1.5", "2.1", "2.5", "3.5", "4", "10.5", "2024.2", "1!0.5", "1!1.5", "2025",
          "1.1.dev1", "1.5a2", "2.5.post3", "0.5+loc", "3.5rc1", "1.0", "1.2", "2.0", "1.2.3", "2", "3", "0", "0.1", "1", "10.4", "2024.1"]


def regular_idx(cs: list[Any], probes: list[Any]) -> list[int]:
    bs: list[Any] = []
    for c in cs:
        bs += V.bounds(c)
    return [i for i, p in enumerate(probes) if p is not None and V.is_regular(p, bs)]


# ---------------------------------------------------------------------------------------- classification of findings
def classify(d: Any, text: str | None, src: Any) -> str | None:
    """the known-finding class a failing round trip belongs to (None: not one of the documented classes)"""
    from poetry.core.packages.url_dependency import URLDependency
    from poetry.core.packages.vcs_dependency import VCSDependency
    if d is not None and not d.is_direct_origin() and GD.looks_like_archive(d.pretty_name):
        return K_ARCHIVE
    if d is not None and d.in_extras and not G.mentions_extra(str(d.marker)) and not (isinstance(src, dict) and (src.get("ctor") or {}).get("in_extras")):
        return K_INEXTRAS
    if d is not None and not d.is_direct_origin() and text and re.search(r"[<>]=?[^,;)\s]*\+", text.split(";")[0]):
        return K_LOCAL
    if isinstance(d, VCSDependency):
        if "://None/" in (d.source or "") or "://None/" in (text or ""):
            return K_FILE_NONE
        if d.directory and "." in d.directory:
            return K_SUBDIR_DOT
    if isinstance(d, URLDependency) and text and d.url.split("?")[0].endswith(".whl"):
        return K_WHEEL
    if text and " #" in text:
        return K_COMMENT
    return None


# ---------------------------------------------------------------------------------------- the property on the real code
def oracle(ctx: core.Ctx, d: Any, witness: dict[str, Any], envs: list[dict[str, Any]], probes: list[Any], ref: list[dict[str, Any]],
           pending: list[Any]) -> None:
    """d --to_pep_508--> text --create_from_pep_508--> d2 ; queue the reference request"""
    why = outside_domain(d)
    if why:
        ctx.count("oracle:skipped:" + why)
        return
    c = witness.get("ctor") if isinstance(witness, dict) else None
    if c and c.get("kind") == "vcs" and c.get("form") in ("https", "http", "ssh", "git", "file", "file-host") and d.source_url != c["source"]:
        # a location already written as scheme://[user@]host[:port]/path must be kept as it is
        ctx.violate(classify(d, None, witness) or f"source-changed:{c['source']}", f"VCSDependency(source={c['source']!r}) has source_url {d.source_url!r}", witness)
        return
    try:
        text = d.to_pep_508()
    except Exception as e:  # noqa: BLE001
        ctx.violate(classify(d, None, witness) or f"print-raises:{MC.errname(e)}:{kind_tag(d)}", f"to_pep_508 raised {type(e).__name__}: {e}", witness)
        return
    ctx.case("t:" + text, nontrivial=True, sample={"text": text} if len(text) > 40 and ";" in text else None)
    ctx.count("kind:" + kind_tag(d))
    ctx.count("marker:" + ("any" if d.marker.is_any() else "leaves=" + str(min(G.count_leaves(str(d.marker)), 6))))
    ctx.count("extras:" + str(min(len(d.extras), 3)))
    ref.append({"op": "req", "s": text})
    pending.append((d, text, witness))
    try:
        d2 = real_parse(text)
    except Exception as e:  # noqa: BLE001
        ctx.violate(classify(d, text, witness) or f"reparse-raises:{MC.errname(e)}:{kind_tag(d)}",
                    f"create_from_pep_508({text!r}) raised {type(e).__name__}: {str(e)[:120]} (text printed by to_pep_508 of {witness})", witness)
        return
    bad = None
    if d2.name != d.name:
        bad = f"name {d.name!r} -> {d2.name!r}"
    elif d2.extras != d.extras:
        bad = f"extras {sorted(d.extras)} -> {sorted(d2.extras)}"
    elif kind_tag(d2) != kind_tag(d):
        bad = f"kind {kind_tag(d)} -> {kind_tag(d2)}"
    elif (d2.source_type, d2.source_url, d2.source_reference, d2.source_subdirectory or None) != (d.source_type, d.source_url, d.source_reference, d.source_subdirectory or None):
        bad = (f"source {(d.source_type, d.source_url, d.source_reference, d.source_subdirectory)} -> "
               f"{(d2.source_type, d2.source_url, d2.source_reference, d2.source_subdirectory)}")
    elif not d.is_same_source_as(d2) or not d2.is_same_source_as(d):
        bad = "is_same_source_as is false"
    if bad is None and not d.is_direct_origin():
        idx = regular_idx([d.constraint, d2.constraint], probes)
        b1, b2 = V.bits(d.constraint, probes), V.bits(d2.constraint, probes)
        k = next((i for i in idx if b1[i] != b2[i]), None)
        ctx.count("oracle:probe-comparisons", len(idx))
        if k is not None:
            bad = f"constraint {d.constraint} -> {d2.constraint}: version {probes[k]} {b1[k]} -> {b2[k]}"
    if bad is None:
        t1, t2 = MC.split_bits(MC.truth(d.marker, envs)), MC.split_bits(MC.truth(d2.marker, envs))
        if c and c.get("in_extras") and not G.mentions_extra(str(d.marker)):
            # recorded membership in extras: the dependency applies when its marker holds and one of these extras is active
            t1 = [x if x != "1" else ("1" if any(e in env.get("extra", []) for e in d.in_extras) else "0") for x, env in zip(t1, envs)]
        k = next((i for i, (x, y) in enumerate(zip(t1, t2)) if x != y), None)
        ctx.count("oracle:env-comparisons", len(envs))
        if k is not None:
            bad = f"marker {d.marker} -> {d2.marker}: environment {brief(envs[k])} {t1[k]} -> {t2[k]}"
    if bad is not None:
        ctx.violate(classify(d, text, witness) or f"roundtrip:{kind_tag(d)}:{bad.split(' ')[0]}:{text}",
                    f"round trip of {witness} through {text!r}: {bad}", witness)


NAME_RE = re.compile(r"[A-Za-z0-9]([A-Za-z0-9._-]*[A-Za-z0-9])?")


def outside_domain(d: Any) -> str | None:
    """objects the property does not quantify over (they are still compared model vs code)"""
    from poetry.core.constraints.version import VersionUnion
    if kind_tag(d) in ("file", "directory"):
        return "path-dependency"
    if not NAME_RE.fullmatch(d.pretty_name) or not all(NAME_RE.fullmatch(e) for e in d.extras):
        return "name-not-pep508"
    if d.constraint.is_empty() or d.marker.is_empty():
        return "unsatisfiable"          # nothing can satisfy it
    if re.search(r'""|= "="', str(d.marker)):
        return "marker-empty-literal"   # outside the C06 domain (printed as `name = "="`: a marker-text defect, C13's subject)
    if any(x and re.search(r"\s", x) for x in (d.source_url, d.source_reference, d.source_subdirectory)):
        return "url-with-whitespace"
    c = d.constraint
    if not d.is_direct_origin() and isinstance(c, VersionUnion) and not (c.excludes_single_version or c.excludes_single_wildcard_range):
        parts = d.pretty_constraint.split(",")
        if "||" in d.pretty_constraint or "|" in d.pretty_constraint:
            return "disjunction-constraint"
    return None


def text_class(t: str) -> str | None:
    m = re.match(r"\s*([A-Za-z0-9][A-Za-z0-9._-]*)\s*(\[[^\]]*\])?\s*(@?)", t)
    if m and not m.group(3) and GD.looks_like_archive(m.group(1)):
        return K_ARCHIVE
    return None


def brief(e: dict[str, Any]) -> str:
    return f"py={e.get('python_full_version')} platform={e.get('sys_platform')} extras={e.get('extra')}"


def check_reference(ctx: core.Ctx, ref: list[dict[str, Any]], pending: list[Any]) -> None:
    if not ref:
        return
    for (d, text, witness), rf in zip(pending, MC.ref_batch(ref)):
        if rf[0] != "ok":
            ctx.violate(classify(d, text, witness) or f"reference-rejects:{kind_tag(d)}:{text}",
                        f"the PEP 508 reference parser rejects {text!r} ({rf[1:]}) printed for {witness}", witness)
            continue
        ctx.count("oracle:reference-accepts")
        if rf[1] != d.name or sorted(GD.canon(x) for x in rf[2]) != sorted(d.extras):
            ctx.violate(f"reference-reads-differently:{text}", f"reference reads {text!r} as name {rf[1]!r} extras {rf[2]}, "
                        f"the dependency has {d.name!r} {sorted(d.extras)}", witness)


# ---------------------------------------------------------------------------------------- streams
def cmp_reports(ctx: core.Ctx, stream: str, inp: Any, io: list[str], mo: list[str]) -> int:
    """model vs implementation on one dump; returns the number of disagreements (0/1)"""
    if mo[:2] == ["err", "unmodelled"]:
        ctx.count("unmodelled:" + stream)
        return 0
    if io[0] != mo[0] or (io[0] == "err" and io[1] != mo[1]):
        ctx.disagree(stream + ":accept", inp, io[:3], mo[:3])
        return 1
    if io[0] != "ok":
        return 0
    names = ["spec", "kind", "constraint", "pretty", "marker", "python", "in_extras", "flags", "text", "text_noextras", "probes", "envs"]
    for k, nm in enumerate(names, start=1):
        a, b = io[k], mo[k] if k < len(mo) else "<missing>"
        if nm == "envs":
            ib, mb = MC.split_bits(a), MC.split_bits(b)
            if any(y != "u" and x != y for x, y in zip(ib, mb)) or len(ib) != len(mb):
                ctx.disagree(stream + ":" + nm, inp, a, b)
                return 1
        elif nm in ("text", "text_noextras") and b == "!unmodelled":
            ctx.count("unmodelled:print")
        elif a != b:
            ctx.disagree(stream + ":" + nm, inp, a, b)
            return 1
    return 0


def run_texts(ctx: core.Ctx, texts: list[str], stream: str, do_oracle: bool = True) -> list[Any]:
    envs = G.env_grid(ctx.rng, 22)
    eenc = [G.enc_env(e) for e in envs]
    probes = [V.parse_probe(p) for p in PROBES]
    model = core.run_driver([core.line("dep508", t, *PROBES, "|", *eenc) for t in texts])
    dis = 0
    ref: list[dict[str, Any]] = []
    pending: list[Any] = []
    objs = []
    for t, mo in zip(texts, model):
        try:
            d = real_parse(t)
            io = dep_report(d, probes, envs)
        except Exception as e:  # noqa: BLE001
            d = None
            io = ["err", MC.errname(e)]
        objs.append(d)
        ctx.count("parse:" + (io[0] if io[0] == "ok" else "err:" + io[1]))
        dis += cmp_reports(ctx, stream, t, io, mo)
        if d is not None and do_oracle:
            oracle(ctx, d, {"text": t}, envs, probes, ref, pending)
        elif d is None:
            ctx.case("x:" + t, nontrivial=False)
    check_reference(ctx, ref, pending)
    ctx.stream(stream, len(texts), dis)
    return objs


def run_ctors(ctx: core.Ctx, descs: list[dict[str, Any]], stream: str) -> None:
    envs = G.env_grid(ctx.rng, 22)
    eenc = [G.enc_env(e) for e in envs]
    probes = [V.parse_probe(p) for p in PROBES]
    model = core.run_driver([ctor_line(c, PROBES, eenc) for c in descs])
    dis = 0
    ref: list[dict[str, Any]] = []
    pending: list[Any] = []
    recent: list[dict[str, Any]] = []
    for c, mo in zip(descs, model):
        MC.clear_caches()
        hist = list(recent) if "history" in stream else []
        recent = (recent + [c])[-5:]
        try:
            d = real_build(c)
            io = dep_report(d, probes, envs)
        except Exception as e:  # noqa: BLE001
            d = None
            io = ["err", MC.errname(e)]
        ctx.count("build:" + (io[0] if io[0] == "ok" else "err:" + io[1]))
        dis += cmp_reports(ctx, stream, c, io, mo)
        if d is None:
            ctx.case("x:" + repr(c), nontrivial=False)
            continue
        oracle(ctx, d, {"ctor": c, "history": hist} if hist else {"ctor": c}, envs, probes, ref, pending)
    check_reference(ctx, ref, pending)
    ctx.stream(stream, len(descs), dis)


def run_insensitive(ctx: core.Ctx, pairs: list[tuple[str, str]]) -> None:
    """two spellings of one requirement must give the same dependency (real code), and the model must agree on both"""
    envs = G.env_grid(ctx.rng, 16)
    probes = [V.parse_probe(p) for p in PROBES]
    for a, b in pairs:
        try:
            da = real_parse(a)
        except Exception:  # noqa: BLE001
            ctx.count("insensitive:base-rejected")
            continue
        ra = dep_report(da, probes, envs)
        try:
            db = real_parse(b)
            rb = dep_report(db, probes, envs)
        except Exception as e:  # noqa: BLE001
            ctx.violate(classify(da, a, None) or text_class(b) or f"spelling-rejected:{b}", f"{a!r} parses but its re-spelling {b!r} raises {type(e).__name__}: {str(e)[:100]}",
                        {"pair": [a, b]})
            continue
        ctx.case("i:" + b, nontrivial=True)
        ctx.count("insensitive:compared")
        # pretty name and pretty text differ by construction; everything else must coincide
        sa, sb = ra[1].split("|", 1)[1], rb[1].split("|", 1)[1]
        same = sa == sb and ra[2:9] == rb[2:9] and ra[11:] == rb[11:]
        if not same:
            ctx.violate(classify(da, a, None) or f"spelling-sensitive:{a}", f"{a!r} and {b!r} differ only in blanks/quotes/name spelling but parse differently: "
                        f"{[x for x, y in zip(ra, rb) if x != y][:3]} vs {[y for x, y in zip(ra, rb) if x != y][:3]}", {"pair": [a, b]})


def run_giturls(ctx: core.Ctx, urls: list[str]) -> None:
    from poetry.core.vcs.git import ParsedUrl
    model = core.run_driver([core.line("giturl", u) for u in urls])
    dis = 0
    for u, mo in zip(urls, model):
        try:
            p = ParsedUrl.parse(u)
            io = ["ok", "|".join(opt(x) for x in (p.protocol, p.resource, p.pathname, p.user, p.port, p.rev, p.subdirectory)), p.url]
        except Exception as e:  # noqa: BLE001
            io = ["err", MC.errname(e)]
        ctx.count("giturl:" + ("unmodelled" if mo[:2] == ["err", "unmodelled"] else io[0]))
        if mo[:2] == ["err", "unmodelled"]:
            continue
        if io != mo:
            dis += 1
            ctx.disagree("giturl", u, io, mo)
    ctx.stream("giturl", len(urls), dis)


def gen_descs(ctx: core.Ctx, n: int) -> list[dict[str, Any]]:
    return [GD.dep_desc(ctx.rng) for _ in range(n)]


def quiet() -> None:
    import logging
    logging.getLogger("poetry.core.packages.path_dependency").setLevel(logging.ERROR)


def correspondence(ctx: core.Ctx) -> None:
    rnd = ctx.rng
    quiet()
    run_texts(ctx, CORPUS_TEXTS, "corpus")
    for key, w in CORPUS_FINDINGS:
        replay(ctx, w)
    n = ctx.budget(2400, 48000)
    for k in range(0, n, 1200):
        descs = gen_descs(ctx, min(1200, n - k))
        run_ctors(ctx, descs, "ctor")
        texts = [GD.dep_text(rnd, d) for d in descs]
        run_texts(ctx, texts, "text")
        pairs = [(GD.dep_text(rnd, d, plain=True), GD.dep_text(rnd, GD.variant(rnd, d))) for d in descs[: len(descs) // 3]]
        run_insensitive(ctx, pairs)
        bad = [GD.mutate(rnd, t) for t in texts[: len(texts) // 6]]
        run_texts(ctx, [t for t in bad if core.valid_utf8(t) and "\x00" not in t], "malformed", do_oracle=True)
        # call history: each description followed at once by siblings that differ in one field its ==/hash ignores or
        # relates loosely — the model is a pure function of the description, so state kept between calls shows up
        hist: list[dict[str, Any]] = []
        for d in descs[: len(descs) // 4]:
            hist.append(d)
            hist.extend(GD.siblings(rnd, d))
        run_ctors(ctx, hist, "history")
        run_texts(ctx, [GD.dep_text(rnd, d, plain=True) for d in hist], "history-text")
    run_giturls(ctx, GD.git_url_texts(rnd, ctx.budget(1500, 20000)))


def search(ctx: core.Ctx) -> None:
    seeds_t, seeds_c = [], []
    for d in ctx.disagreements:
        i = d["input"]
        if isinstance(i, str):
            seeds_t.append(i)
        elif isinstance(i, dict) and "kind" in i:
            seeds_c.append(i)
    if seeds_t:
        run_texts(ctx, seeds_t[:300], "search-disagreeing-texts")
    if seeds_c:
        run_ctors(ctx, seeds_c[:300], "search-disagreeing-ctors")
    known = core.known_keys(PROP)
    for _ in range(6):
        if any(v.key not in known for v in ctx.violations):
            return
        descs = gen_descs(ctx, 1000)
        run_ctors(ctx, descs, "search-ctor")
        run_texts(ctx, [GD.dep_text(ctx.rng, d) for d in descs], "search-text")
        hist: list[dict[str, Any]] = []
        for d in descs[:300]:
            hist.append(d)
            hist.extend(GD.siblings(ctx.rng, d))
        run_ctors(ctx, hist, "search-history")
        run_insensitive(ctx, [(GD.dep_text(ctx.rng, d, plain=True), GD.dep_text(ctx.rng, GD.variant(ctx.rng, d))) for d in descs[:400]])


def replay(ctx: core.Ctx, payload: dict[str, Any]) -> bool:
    w = payload.get("witness", payload)
    before = len(ctx.violations)
    quiet()
    envs = G.envs()
    probes = [V.parse_probe(p) for p in PROBES]
    ref: list[dict[str, Any]] = []
    pending: list[Any] = []
    if "pair" in w:
        run_insensitive(ctx, [tuple(w["pair"])])
        return len(ctx.violations) > before
    for h in w.get("history", []):     # the calls made just before in the same process (state kept between calls)
        try:
            dep_report(real_build(h), probes, envs)
        except Exception:  # noqa: BLE001
            pass
    try:
        d = real_parse(w["text"]) if "text" in w else real_build(w["ctor"])
    except Exception:  # noqa: BLE001
        return False
    oracle(ctx, d, w, envs, probes, ref, pending)
    check_reference(ctx, ref, pending)
    return len(ctx.violations) > before
