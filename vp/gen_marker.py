"""Seeded generators of PEP 508 marker texts and target environments (C06/C07/C13/C17/C11/C20 domains)."""
from __future__ import annotations

import random
import re
from typing import Any

PY_FULL = ["2.7.18", "3.6.15", "3.7.0", "3.8.0", "3.8.10", "3.9.1", "3.9.18", "3.10.0", "3.10.12", "3.11.4", "3.12.0", "3.13.1", "4.0.0"]
PLATFORMS = [
    {"os_name": "posix", "sys_platform": "linux", "platform_machine": "x86_64", "platform_system": "Linux",
     "platform_release": "5.10.0", "platform_version": "#1 SMP Debian 5.10.0", "platform_python_implementation": "CPython",
     "implementation_name": "cpython"},
    {"os_name": "nt", "sys_platform": "win32", "platform_machine": "AMD64", "platform_system": "Windows",
     "platform_release": "10", "platform_version": "10.0.19045", "platform_python_implementation": "CPython",
     "implementation_name": "cpython"},
    {"os_name": "posix", "sys_platform": "darwin", "platform_machine": "arm64", "platform_system": "Darwin",
     "platform_release": "23.1.0", "platform_version": "Darwin Kernel Version 23.1.0 tegra", "platform_python_implementation": "PyPy",
     "implementation_name": "pypy"},
]
# "linux" is also a value of sys_platform: an extra and a string variable sharing a literal must not share anything else
EXTRA_SETS: list[list[str]] = [[], ["a"], ["foo-bar"], ["a", "foo-bar"], ["b"], ["inotify", "a"], ["linux", "a"],
                               ["a--b"], ["A_B", "foo-bar"]]     # other spellings of one normalised name (PEP 685), runs of separators

PY2 = ["2.7", "3.6", "3.7", "3.8", "3.9", "3.10", "3.11", "3.12", "4.0"]
PY3 = ["3.6.15", "3.7.0", "3.8.0", "3.8.10", "3.9.1", "3.10.0", "3.10.12", "3.11.4", "3.12.0"]
VOPS = ["==", "!=", "<", "<=", ">", ">=", "~="]
STR_VARS = {
    "os_name": ["posix", "nt", "java"],
    "sys_platform": ["linux", "win32", "darwin", "cygwin", "interix"],
    "platform_machine": ["x86_64", "AMD64", "arm64", "aarch64"],
    "platform_system": ["Linux", "Windows", "Darwin", 'Darwi"n'],   # a value with a double quote is written in single quotes (3046ca3)
    "platform_python_implementation": ["CPython", "PyPy", "Jython"],
    "implementation_name": ["cpython", "pypy", "extrapy"],   # a VALUE holding the text "extra" is not a use of the variable
    "platform_version": ["10.0.19045", "#1 SMP Debian 5.10.0"],
}
ALIASES = {"os_name": "os.name", "sys_platform": "sys.platform", "platform_machine": "platform.machine",
           "platform_python_implementation": "platform.python_implementation", "platform_version": "platform.version"}
SUBSTR = {"platform_release": ["10", "5.1", "tegra", "23"], "platform_version": ["Debian", "tegra", "SMP", "19045"],
          "platform_machine": ["64", "arm", "x86"], "sys_platform": ["win", "lin", "x"]}
EXTRAS = ["a", "b", "foo-bar", "Foo_Bar", "foo.bar", "c", "inotify", "linux", "a-b", "a--b", "A_B", "a.b", "foo--bar", "7--zip"]
REL = ["5.10.0", "10", "23.1.0", "5.4", "6.0.0", "22"]


def envs(extra_sets: list[list[str]] | None = None, pys: list[str] | None = None) -> list[dict[str, Any]]:
    out = []
    for full in pys or PY_FULL:
        parts = full.split(".")
        for p in PLATFORMS:
            for ex in extra_sets if extra_sets is not None else EXTRA_SETS:
                e: dict[str, Any] = dict(p)
                e["python_full_version"] = full
                e["python_version"] = parts[0] + "." + parts[1]
                e["implementation_version"] = full
                e["extra"] = list(ex)
                out.append(e)
    return out


def env_grid(rnd: random.Random, n: int = 24) -> list[dict[str, Any]]:
    """a sample of the full grid that always contains every interpreter and every platform once"""
    full = envs()
    must = []
    for i, py in enumerate(PY_FULL):
        cand = [e for e in full if e["python_full_version"] == py]
        must.append(cand[(i * 7) % len(cand)])
    rest = [e for e in full if e not in must]
    rnd.shuffle(rest)
    return must + rest[: max(0, n - len(must))]


def enc_env(e: dict[str, Any]) -> str:
    lines = [f"{k}={v}" for k, v in e.items() if k != "extra"]
    if "extra" in e:
        lines.append("extra=" + ",".join(e["extra"]))
    return "\n".join(lines)


def mentions_extra(text: str) -> bool:
    """does the marker text use the VARIABLE `extra` (a quoted value such as "extrapy" does not count)"""
    return bool(re.search(r"\bextra\b", re.sub(r"""("[^"]*"|'[^']*')""", '""', text)))


def q(rnd: random.Random, s: str) -> str:
    if '"' in s:
        return f"'{s}'"
    return f"'{s}'" if rnd.random() < 0.3 and "'" not in s else f'"{s}"'


def leaf(rnd: random.Random, python_only: bool = False, no_extra: bool = False, pfv2_lists: bool = False) -> str:
    k = rnd.random()
    sp = lambda: rnd.choice(["", " ", " ", " ", "  "])  # noqa: E731
    if python_only:
        k = rnd.random() * 0.45
    if k < 0.25:
        name = "python_version"
        if rnd.random() < 0.2:
            op = rnd.choice(["in", "not in"])
            toks = rnd.sample(PY2, rnd.randint(1, 3))
            return f"{name} {op} {q(rnd, rnd.choice([' ', ', ', ',', '|']).join(toks))}"
        op = rnd.choice(VOPS)
        return f"{name}{sp()}{op}{sp()}{q(rnd, rnd.choice(PY2))}"
    if k < 0.45:
        name = "python_full_version"
        if rnd.random() < 0.15:
            op = rnd.choice(["in", "not in"])
            pool = PY3 + (PY2 if pfv2_lists else [])
            toks = rnd.sample(pool, rnd.randint(1, 3))
            return f"{name} {op} {q(rnd, ' '.join(toks))}"
        op = rnd.choice(VOPS)
        lit = rnd.choice(PY3) if op == "~=" or rnd.random() < 0.6 else rnd.choice(PY2)
        return f"{name}{sp()}{op}{sp()}{q(rnd, lit)}"
    if k < 0.53:
        name = "platform_release"
        if rnd.random() < 0.4:
            return f"{q(rnd, rnd.choice(SUBSTR[name]))} {rnd.choice(['in', 'not in'])} {name}"
        return f"{name} {rnd.choice(VOPS[:6])} {q(rnd, rnd.choice(REL))}"
    if k < 0.68 and not no_extra:
        return f"extra{sp()}{rnd.choice(['==', '==', '!='])}{sp()}{q(rnd, rnd.choice(EXTRAS))}"
    name = rnd.choice(list(STR_VARS))
    vals = STR_VARS[name]
    r = rnd.random()
    shown = ALIASES[name] if name in ALIASES and rnd.random() < 0.15 else name
    if r < 0.55:
        return f"{shown}{sp()}{rnd.choice(['==', '!='])}{sp()}{q(rnd, rnd.choice(vals))}"
    if r < 0.8 and name != "platform_version":
        toks = rnd.sample(vals, rnd.randint(1, min(3, len(vals))))
        return f"{shown} {rnd.choice(['in', 'not in'])} {q(rnd, rnd.choice([' ', ', ', '|']).join(toks))}"
    if name in SUBSTR:
        return f"{q(rnd, rnd.choice(SUBSTR[name]))} {rnd.choice(['in', 'not in'])} {shown}"
    return f"{shown} {rnd.choice(['==', '!='])} {q(rnd, rnd.choice(vals))}"


def marker(rnd: random.Random, max_leaves: int = 5, depth: int = 0, max_depth: int = 3, **kw: Any) -> str:
    """and/or/parentheses tree with at most max_leaves leaves and nesting depth ≤ max_depth+1"""
    n = max(rnd.randint(1, max_leaves), rnd.randint(1, max_leaves))
    return _tree(rnd, n, depth, max_depth, kw)


def _tree(rnd: random.Random, n: int, depth: int, max_depth: int, kw: dict[str, Any]) -> str:
    if n == 1:
        s = leaf(rnd, **kw)
        if depth < max_depth and rnd.random() < 0.08:
            return "(" + s + ")"
        return s
    k = rnd.randint(2, min(n, 3))
    sizes = [1] * k
    for _ in range(n - k):
        sizes[rnd.randrange(k)] += 1
    op = rnd.choice([" and ", " or "])
    parts = []
    for sz in sizes:
        sub = _tree(rnd, sz, depth + 1, max_depth, kw)
        if sz > 1 and depth < max_depth and (rnd.random() < 0.7):
            sub = "(" + sub + ")"
        elif sz > 1:
            # no parentheses: mix operators at one level (precedence: and binds tighter)
            pass
        parts.append(sub)
    if rnd.random() < 0.25 and len(parts) > 2:
        # mixed operators without parentheses
        ops = [rnd.choice([" and ", " or "]) for _ in range(len(parts) - 1)]
        s = parts[0]
        for o, p in zip(ops, parts[1:]):
            s += o + p
        return s
    return op.join(parts)


def count_leaves(text: str) -> int:
    import re
    return len(re.findall(r"""("[^"]*"|'[^']*')""", text))


MUT_TOKENS = [" and ", " or ", "(", ")", '"', "'", " in ", " not in ", "==", ">=", "~=", "===", "python_version", "extra", "os_name", " ", "\t", "\n", "x", "3.8", "!", "<>"]


def mutate(rnd: random.Random, s: str) -> str:
    k = rnd.random()
    if not s:
        return rnd.choice(MUT_TOKENS)
    i = rnd.randrange(len(s))
    if k < 0.3:
        return s[:i] + rnd.choice(MUT_TOKENS) + s[i:]
    if k < 0.55:
        j = min(len(s), i + rnd.randint(1, 6))
        return s[:i] + s[j:]
    if k < 0.7:
        return s[:i]
    if k < 0.85:
        j = rnd.randrange(len(s))
        a, b = min(i, j), max(i, j)
        return s[:a] + s[b:] + s[a:b]
    return s + rnd.choice(MUT_TOKENS)


# ---------------------------------------------------------------------------------------------
# systematic same-variable pairs: every operator pair on equal / adjacent / distant literals
# (the C07 quantifier: "several leaves on the same variable with contradictory/overlapping/adjacent values,
#  mixed python_version/python_full_version clauses")
# ---------------------------------------------------------------------------------------------

def python_leaf_universe() -> list[str]:
    out = []
    for lit in ["3.8", "3.9", "3.10", "3.11"]:
        for op in VOPS:
            out.append(f'python_version {op} "{lit}"')
    for lit in ["3.9.0", "3.9.1", "3.10.0", "3.8.10", "3.9"]:
        for op in VOPS:
            if op == "~=" and lit.count(".") < 2:
                continue
            out.append(f'python_full_version {op} "{lit}"')
    out += ['python_version in "3.8 3.9"', 'python_version not in "3.9 3.10"', 'python_full_version in "3.9.0 3.9.1"',
            'python_full_version not in "3.10.0"',
            # two-component tokens in a python_full_version list stand for the release series (regression of d9aa4ee)
            'python_full_version not in "3.9"', 'python_full_version in "3.9"', 'python_full_version in "3.8 3.10.0"']
    return out


def string_leaf_universe() -> list[str]:
    out = []
    for name, vals in (("sys_platform", ["linux", "win32", "darwin"]), ("os_name", ["nt", "posix"])):
        for v in vals:
            out += [f'{name} == "{v}"', f'{name} != "{v}"']
        out += [f'{name} in "{vals[0]} {vals[1]}"', f'{name} not in "{vals[0]} {vals[1]}"', f'"{vals[0][:2]}" in {name}',
                f'"{vals[0][:2]}" not in {name}']
    for e in ["a", "b", "Foo_Bar", "inotify"]:
        out += [f'extra == "{e}"', f'extra != "{e}"']
    out += ['sys_platform == "interix"', 'sys_platform != "interix"', 'os_name == "notinux"']
    return out


def same_variable_pairs(rnd: random.Random, n: int | None = None) -> list[tuple[str, str]]:
    """all ordered pairs inside the python universe and inside the string universe (same variable or
    python_version x python_full_version); `n` = size of a seeded sample, None = all"""
    pu, su = python_leaf_universe(), string_leaf_universe()
    same = lambda a, b: a.split()[0].strip('"') == b.split()[0].strip('"') or a.split()[-1] == b.split()[-1]  # noqa: E731
    # always complete: python_version x python_version (adjacent minors, every operator pair) and the string variables
    core = [(a, b) for a in pu for b in pu if a.startswith("python_version") and b.startswith("python_version")]
    core += [(a, b) for a in su for b in su if same(a, b)]
    rest = [(a, b) for a in pu for b in pu if not (a.startswith("python_version") and b.startswith("python_version"))]
    if n is not None and n < len(rest):
        rest = rnd.sample(rest, n)
    return core + rest


# ------------------------------------------------------------------ call histories
_LEAF_RE = re.compile(r"""(python_version|python_full_version)\s*(==|!=|>=|<=|<|>|not in|in)\s*(["'])([^"']*)\3""")


def _minor_shift(lit: str, d: int) -> str | None:
    p = lit.split(".")
    if len(p) != 2 or not all(x.isdigit() for x in p) or int(p[1]) + d < 0:
        return None
    return f"{p[0]}.{int(p[1]) + d}"


def respell(rnd: random.Random, text: str) -> str:
    """the same marker written differently, leaf by leaf: `python_version == "X"` <-> `in "X"`, `!=` <-> `not in`,
    list tokens reordered / re-separated, `>= "3.8"` <-> `> "3.7"`, `< "3.9"` <-> `<= "3.8"` (python_version only),
    quote style.  Equal meaning, different object: what a memo keyed too coarsely (or compared by identity) confuses."""
    def sub(mo: re.Match[str]) -> str:
        name, op, qq, lit = mo.group(1), mo.group(2), mo.group(3), mo.group(4)
        toks = [t for t in re.split(r"[\s,|]+", lit) if t]
        r = rnd.random()
        if r < 0.25:
            qq = "'" if qq == '"' else '"'
        elif op in ("==", "!=") and len(toks) == 1 and r < 0.8:
            op = "in" if op == "==" else "not in"
        elif op in ("in", "not in") and len(toks) == 1 and r < 0.8:
            op = "==" if op == "in" else "!="
        elif op in ("in", "not in") and len(toks) > 1:
            rnd.shuffle(toks)
            lit = rnd.choice([" ", ", ", "|", ","]).join(toks)
        elif name == "python_version" and op in (">=", ">", "<", "<=") and r < 0.9:
            alt = {">=": (">", -1), ">": (">=", 1), "<": ("<=", -1), "<=": ("<", 1)}[op]
            sh = _minor_shift(lit, alt[1])
            if sh is not None:
                op, lit = alt[0], sh
        return f"{name} {op} {qq}{lit}{qq}"
    return _LEAF_RE.sub(sub, text)


def history_items(rnd: random.Random, n: int) -> list[tuple[str, str | None]]:
    """groups of operand pairs to be run one after the other WITHOUT resetting anything in between: a pair, the same pair
    respelled (equal meaning, different leaves), the operands exchanged, the pair again.  The model is a pure function of
    each pair, so a result that depends on what was computed before shows up as a disagreement with it."""
    pu = python_leaf_universe()
    out: list[tuple[str, str | None]] = []
    while len(out) < n:
        k = rnd.random()
        if k < 0.5:
            a = rnd.choice(pu)
            b = rnd.choice(pu)
        elif k < 0.75:
            a = leaf(rnd, python_only=True)
            b = marker(rnd, max_leaves=2, python_only=True)
        else:
            a = marker(rnd, max_leaves=3)
            b = marker(rnd, max_leaves=2)
        out += [(a, b), (respell(rnd, a), b), (respell(rnd, a), respell(rnd, b)), (b, a), (a, b)]
    return out[:n]


def python_list_leaves() -> list[str]:
    """`in` / `not in` list clauses over every 1-3-element subset of four adjacent minors (plus a few full versions)"""
    import itertools
    minors = ["3.7", "3.8", "3.9", "3.10"]
    out = []
    for k in (1, 2, 3):
        for sub in itertools.combinations(minors, k):
            for op in ("in", "not in"):
                out.append(f'python_version {op} "{" ".join(sub)}"')
    out += ['python_full_version in "3.8.1 3.9.0"', 'python_full_version not in "3.8.1 3.9.0"', 'python_full_version in "3.9.0"',
            'python_full_version not in "3.10.0 3.7.3"']
    return out


def python_list_conjunctions(rnd: random.Random, n: int | None = None) -> list[str]:
    """two (or three) list clauses on the python version in ONE conjunction / disjunction, in both orders — the shapes the
    same-variable merge of parse_marker leaves alone only in part, so both the merged and the unmerged path of
    marker -> python range conversion are walked.  `n` = sample size of the remainder (None = everything)."""
    ll = python_list_leaves()
    core = [f"{a} and {b}" for a in ll for b in ll if (" not in " in a) != (" not in " in b)]
    rest = [f"{a} {op} {b}" for a in ll for b in ll for op in ("and", "or") if not (op == "and" and (" not in " in a) != (" not in " in b))]
    cmp_ = ['python_version >= "3.8"', 'python_version < "3.10"', 'python_full_version >= "3.8.1"', 'python_version != "3.9"', 'sys_platform == "linux"']
    rest += [f"{a} and {b} and {c}" for a in ll[::3] for b in ll[1::3] for c in cmp_]
    rest += [f"{a} and {c} and {b}" for a in ll[::4] for b in ll[2::4] for c in cmp_]
    if n is not None and n < len(rest):
        rest = rnd.sample(rest, n)
    return core + rest
