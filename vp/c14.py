"""C14 — core metadata (METADATA / PKG-INFO) is well-formed and faithful to every declared field."""
from __future__ import annotations

import email
import email.parser
import json
import re
import shutil
import tempfile
import unicodedata
from pathlib import Path
from typing import Any

from . import core

PROP = "C14"
LEAN_MODULE = "PoetryVerif.Props.C14"
RULE = ("abstract project descriptions (name, PEP 440 version spellings, summary, 0-3 authors/maintainers in name / e-mail / both "
        "forms, SPDX or free multi-line licence text or licence file, keywords, declared classifiers static or dynamic, URL labels "
        "incl. homepage/repository/documentation in any case, Python ranges, 0-3 readme files md/rst/txt with header-like, blank and "
        "'From ' lines, dependencies and extras) over an alphabet with Unicode, commas, colons, angle brackets, quotes, leading/"
        "trailing blanks and non-RFC line boundaries; each description is written as a PEP 621 [project] pyproject and as a legacy "
        "[tool.poetry] pyproject when both can express it, built with the real Factory/WheelBuilder.prepare_metadata/SdistBuilder. "
        "A case is non-trivial when validation accepts it and METADATA is produced; distinct = distinct pyproject text + files. "
        "Separate streams: rfc822 (hostile messages, Spec.Rfc822 vs email.parser), malformed (one field broken: line break, bad "
        "e-mail/URI/name/version - expected to be rejected), helper streams for AUTHOR_REGEX and the licence indentation.")
ASSUMPTIONS = [
    "reference parser = CPython 3.12 email.parser (compat32 policy, HeaderParser / message_from_string); Spec/Rfc822.lean is tied to it by the rfc822 stream of every run",
    "tomli, fastjsonschema, the SPDX table (license_by_id), unicodedata.normalize, Dependency.to_pep_508, canonicalize_name and format_python_constraint are inputs of the Meta model (trusted or owned by C02/C10/C11), not modelled here",
    "a header value is compared modulo leading blanks/tabs (RFC 822 unfolding drops them; inherent to the format); the licence is compared after removing the continuation indentation",
    "static [project].classifiers are rendered exactly as declared (documented: static classifiers disable enrichment); sorted/no-duplicates is demanded for dynamic classifiers",
    "only the first author/maintainer is rendered (documented behaviour of Package._get_author)",
    "fastjsonschema.compile is memoised per schema text by the harness (pure function; poetry-core recompiles both schemas on every validate call)",
    "KELVIN SIGN U+212A is excluded from generated URL labels/licence ids (str.lower() maps it to ASCII k; the model lower-cases ASCII only)",
]

HeaderList = list[tuple[str, str]]

# ----------------------------------------------------------------------------------------
# minimal TOML writer (basic strings with escapes; inline tables; arrays)
# ----------------------------------------------------------------------------------------


def _ts(x: str) -> str:
    out = ['"']
    for ch in x:
        o = ord(ch)
        if ch == '"':
            out.append('\\"')
        elif ch == "\\":
            out.append("\\\\")
        elif ch == "\n":
            out.append("\\n")
        elif ch == "\r":
            out.append("\\r")
        elif ch == "\t":
            out.append("\\t")
        elif o < 32 or o == 127:
            out.append("\\u%04x" % o)
        else:
            out.append(ch)
    out.append('"')
    return "".join(out)


class Inline(dict):  # type: ignore[type-arg]
    """a table to be written inline"""


def _tv(v: Any) -> str:
    if isinstance(v, bool):
        return "true" if v else "false"
    if isinstance(v, str):
        return _ts(v)
    if isinstance(v, int):
        return str(v)
    if isinstance(v, list):
        return "[" + ", ".join(_tv(x) for x in v) + "]"
    if isinstance(v, dict):
        return "{" + ", ".join(_ts(k) + " = " + _tv(x) for k, x in v.items()) + "}"
    raise TypeError(type(v))


def toml_dumps(d: dict[str, Any], prefix: tuple[str, ...] = ()) -> str:
    lines: list[str] = []
    tables: list[tuple[str, dict[str, Any]]] = []
    for k, v in d.items():
        if isinstance(v, dict) and not isinstance(v, Inline):
            tables.append((k, v))
        else:
            lines.append(_ts(k) + " = " + _tv(v))
    out = ""
    if prefix:
        out += "[" + ".".join(_ts(p) for p in prefix) + "]\n"
    out += "\n".join(lines) + ("\n" if lines else "")
    for k, v in tables:
        out += "\n" + toml_dumps(v, (*prefix, k))
    return out


def to_jsonable(d: Any) -> Any:
    if isinstance(d, Inline):
        return {"__inline__": {k: to_jsonable(v) for k, v in d.items()}}
    if isinstance(d, dict):
        return {k: to_jsonable(v) for k, v in d.items()}
    if isinstance(d, list):
        return [to_jsonable(v) for v in d]
    return d


def from_jsonable(d: Any) -> Any:
    if isinstance(d, dict):
        if set(d) == {"__inline__"}:
            return Inline({k: from_jsonable(v) for k, v in d["__inline__"].items()})
        return {k: from_jsonable(v) for k, v in d.items()}
    if isinstance(d, list):
        return [from_jsonable(v) for v in d]
    return d


# ----------------------------------------------------------------------------------------
# generators
# ----------------------------------------------------------------------------------------

WORDS = ["alpha", "Beta", "gamma", "Zürich", "naïve", "Ωmega", "日本語", "😀", "déjà vu", "x", "Lib", "tool", "API", "ß", "İi", "Æ"]
PUNCT = [",", ":", ";", " ", "  ", "(", ")", "[", "]", "=", "@", "#", "'", '"', "\\", "/", "-", "_", ".", "!", "?", "&", "%", "+", "*", "|", "~", "`", "$", "^", "{", "}"]
ANGLE = ["<", ">"]
ODD_BREAKS = ["\x0b", "\x0c", "\x1c", "\x1d", "\x1e", "\x85", " ", " "]  # str.splitlines boundaries that email.parser ignores
HEADERISH = ["Requires-Dist: evil", "Name: other", "From me", "From: x", ": nocolon", " indented", "\tTab", "Version: 9", ">From x",
             "Content-Type: multipart/mixed; boundary=x", "--x", "Description-Content-Type: text/x"]


def nfc(s: str) -> str:
    return unicodedata.normalize("NFC", s)


def gen_text(rng: Any, lo: int = 0, hi: int = 4, angle: bool = True, odd: float = 0.03, blanks: bool = True) -> str:
    """single-line text: words and punctuation, optional leading/trailing blanks; never \\n or \\r"""
    parts: list[str] = []
    for _ in range(rng.randint(lo, hi)):
        k = rng.random()
        if k < 0.55:
            parts.append(rng.choice(WORDS))
        elif k < 0.9:
            parts.append(rng.choice(PUNCT))
        elif angle:
            parts.append(rng.choice(ANGLE))
        else:
            parts.append(rng.choice(WORDS))
        if rng.random() < odd:
            parts.append(rng.choice(ODD_BREAKS))
        if rng.random() < 0.5:
            parts.append(" ")
    s = "".join(parts)
    if blanks and rng.random() < 0.12:
        s = rng.choice([" ", "\t", "  "]) + s
    if blanks and rng.random() < 0.12:
        s = s + rng.choice([" ", "\t", "  "])
    if rng.random() < 0.1:
        h = rng.choice(HEADERISH)
        if blanks or h[0] not in " \t":
            s = h + (" " + s if s else "")
    return nfc(s)


def gen_name(rng: Any) -> str:
    first = rng.choice("abcXYZ09")
    if rng.random() < 0.2:
        return first
    mid = "".join(rng.choice("abcDEF012._-") for _ in range(rng.randint(0, 8)))
    return first + mid + rng.choice("abcXYZ09")


def gen_version(rng: Any, project_ok: bool = True) -> str:
    rel = ".".join(str(rng.choice([0, 1, 2, 10, 2024])) for _ in range(rng.randint(1, 4)))
    s = rel
    if rng.random() < 0.3:
        sep = rng.choice(["", ".", "-", "_"])
        num = rng.choice(["", "0", "1", "12"])
        s += sep + rng.choice(["a", "b", "rc", "alpha", "beta", "c", "pre", "preview"]) + (rng.choice(["", ".", "-"]) if num else "") + num
    if rng.random() < 0.2:
        s += rng.choice([".post1", "-1", ".post", "-r2", ".rev3", "post0"])
    if rng.random() < 0.2:
        s += rng.choice([".dev0", "dev", "-dev3", "_dev_1"])
    if rng.random() < 0.15:
        s += "+" + rng.choice(["local", "abc.1", "ubuntu-1", "x_y", "001"])
    if rng.random() < 0.1:
        s = str(rng.choice([1, 2])) + "!" + s
    if rng.random() < 0.1:
        s = "v" + s
    if not project_ok and rng.random() < 0.3:
        s = s.upper().replace("V", "v")
    from packaging.version import InvalidVersion, Version as RefVersion
    try:
        RefVersion(s)
    except InvalidVersion:
        return gen_version(rng, project_ok)
    return s


def gen_email(rng: Any) -> str:
    local = rng.choice(["a", "first.last", "x+tag", "ü", "o'neil", "a-b_c", "1"])
    dom = rng.choice(["b.c", "example.com", "sub.domain.org", "münchen.de", "x-y.io"])
    return nfc(local + "@" + dom)


def gen_person(rng: Any) -> dict[str, Any]:
    k = rng.random()
    name = None
    while not name or not name.strip(" \t") or not AUTHOR_OK.match(name):
        name = gen_text(rng, 1, 3, angle=False, blanks=rng.random() < 0.3)
        if rng.random() < 0.15:
            name = "é" + name  # decomposed: combine_unicode (NFC) applies to authors
        if rng.random() < 0.12:
            # compatibility characters: NFC keeps them, a compatibility normalisation (NFKC) would fold them
            name = name + rng.choice([" Ste\ufb01", " Acme\u2122", " \u2167", " \uff2a\uff4f", " x\u00b2"])
    if k < 0.6:
        return {"name": name, "email": gen_email(rng)}
    return {"name": name, "email": None}


AUTHOR_OK = re.compile(r"^[^<>\n\r]*[^<>\n\r ]$")

LICENSE_IDS = ["MIT", "mit", "Apache-2.0", "BSD-3-Clause", "GPL-3.0-only", "GPL-3.0-or-later", "LGPL-2.1-or-later", "Proprietary",
               "MPL-2.0", "Unlicense", "0BSD", "ISC", "AGPL-3.0-only", "MIT License", "CC0-1.0", "ZPL-2.1", "bsd-2-clause"]
LICENSE_CLASSIFIER = {
    "MIT": "License :: OSI Approved :: MIT License",
    "Apache-2.0": "License :: OSI Approved :: Apache Software License",
    "BSD-3-Clause": "License :: OSI Approved :: BSD License",
    "GPL-3.0-only": "License :: OSI Approved :: GNU General Public License v3 (GPLv3)",
    "Proprietary": "License :: Other/Proprietary License",
    "CC0-1.0": "License :: CC0 1.0 Universal (CC0 1.0) Public Domain Dedication",
    "ISC": "License :: OSI Approved",
    "<custom>": "License :: Other/Proprietary License",
}


def gen_multiline(rng: Any, lo: int = 1, hi: int = 6) -> str:
    lines: list[str] = []
    for _ in range(rng.randint(lo, hi)):
        k = rng.random()
        if k < 0.2:
            lines.append("")
        elif k < 0.4:
            lines.append(rng.choice(HEADERISH))
        elif k < 0.5:
            lines.append(rng.choice([" ", "\t", "   ", " \t "]))
        else:
            lines.append(gen_text(rng, 1, 5))
    seps = ["\n"] * 8 + ["\r\n", "\r", "\n\n"] + ODD_BREAKS[:3]
    s = ""
    for i, ln in enumerate(lines):
        s += ln
        if i < len(lines) - 1 or rng.random() < 0.6:
            s += rng.choice(seps)
    return nfc(s)


CLASSIFIERS = ["Development Status :: 4 - Beta", "Topic :: Software Development :: Build Tools", "Topic :: Utilities", "Typing :: Typed",
               "Programming Language :: Python :: 3 :: Only", "Programming Language :: Python", "Programming Language :: Python :: 3",
               "Programming Language :: Python :: 3.9", "Programming Language :: Python :: Implementation :: CPython",
               "Programming Language :: Rust", "Programming Language :: C", "License :: OSI Approved :: MIT License", "Private :: Do Not Upload",
               "Operating System :: OS Independent", "Zzz :: Last", "Intended Audience :: Developers", "Framework :: Ünïcode",
               "License :: Other/Proprietary License", "Programming Language :: Python :: 2.7", "Programming Language :: Python :: 3.10"]

# python ranges: (poetry syntax, the PEP 440 text both styles print, lo (major, minor) inclusive, hi exclusive or None)
PY_RANGES: list[tuple[str, str, tuple[int, int], tuple[int, int] | None]] = [
    ("^3.8", ">=3.8,<4.0", (3, 8), (4, 0)), (">=3.9", ">=3.9", (3, 9), None), ("~3.10", ">=3.10,<3.11", (3, 10), (3, 11)),
    (">=3.7,<3.12", ">=3.7,<3.12", (3, 7), (3, 12)), ("^3.6", ">=3.6,<4.0", (3, 6), (4, 0)), (">=2.7", ">=2.7", (2, 7), None),
    (">=3.8,<4.0", ">=3.8,<4.0", (3, 8), (4, 0)), ("~2.7", ">=2.7,<2.8", (2, 7), (2, 8)), (">=3.11", ">=3.11", (3, 11), None),
    (">=3.4,<3.6", ">=3.4,<3.6", (3, 4), (3, 6)), (">=3.13", ">=3.13", (3, 13), None), ("<3.9,>=3.5", ">=3.5,<3.9", (3, 5), (3, 9)),
]
PY_UNIONS = ["~2.7 || ^3.6", "^3.8 || ^2.7", ">=3.6,<3.8 || >=3.10"]  # legacy only

URL_LABELS = ["Homepage", "homepage", "HOMEPAGE", "Repository", "repository", "Documentation", "documentation", "Bug Tracker", "Changelog",
              "Ünïcode Label", "Source: code", "Funding (OpenCollective)", "a", "Z", "Ωmega", "x<y>", "Docs & more", "日本"]
URLS = ["https://example.com/", "https://example.com/a/b?q=1&r=2#frag", "http://h:8080/x", "https://ex.org/~user/path,with,commas",
        "https://münchen.example/ü", "ftp://files.example.org/pub", "https://example.com/a:b", "ssh://git@github.com/a/b.git"]
DEPS = [("requests", ">=2.0"), ("Foo_Bar", ">=1.0,<2.0"), ("attrs", ">=21"), ("click", "!=8.0.0"), ("numpy", ">=1.20"), ("a.b-c", "==1.*")]
EXTRA_NAMES = ["ex", "Ex_A", "db.sql", "cli--tools", "x1", "A", "dev-tools"]
README_NAMES = ["README.md", "README.rst", "README.txt", "docs/INTRO.md", "NOTES.markdown", "README", "CHANGES.rst", "a.b.md", ".hidden"]


def gen_description(rng: Any) -> dict[str, Any]:
    d: dict[str, Any] = {"name": gen_name(rng), "version": gen_version(rng), "description": gen_text(rng, 0, 6)}
    if rng.random() < 0.08:
        d["description"] = ""
    d["authors"] = [gen_person(rng) for _ in range(rng.choice([0, 1, 1, 1, 2, 3]))]
    d["maintainers"] = [gen_person(rng) for _ in range(rng.choice([0, 0, 1, 2]))]
    k = rng.random()
    if k < 0.3:
        d["license"] = None
    elif k < 0.6:
        d["license"] = {"kind": "id", "text": rng.choice(LICENSE_IDS)}
    elif k < 0.85:
        d["license"] = {"kind": "text", "text": gen_multiline(rng)}
    else:
        d["license"] = {"kind": "file", "text": gen_multiline(rng, 2, 8)}
    d["keywords"] = [kw for kw in (gen_text(rng, 1, 2, blanks=False) for _ in range(rng.choice([0, 0, 1, 2, 4]))) if kw]
    n = rng.choice([0, 0, 1, 2, 4, 6])
    d["classifiers"] = [rng.choice(CLASSIFIERS) if rng.random() < 0.85 else gen_text(rng, 1, 3, blanks=False) or "X" for _ in range(n)]
    seen_cls: set[str] = set()
    uniq = []
    for c in d["classifiers"]:
        if lstrip_ws(c) not in seen_cls or c == lstrip_ws(c):   # two spellings differing only in leading blanks parse alike
            uniq.append(c)
        seen_cls.add(lstrip_ws(c))
    d["classifiers"] = [c for i, c in enumerate(uniq) if c == lstrip_ws(c) or [lstrip_ws(x) for x in uniq].count(lstrip_ws(c)) == 1]
    d["classifiers_static"] = bool(d["classifiers"]) and rng.random() < 0.3
    urls: dict[str, str] = {}
    for _ in range(rng.choice([0, 0, 1, 2, 3, 5])):
        urls[rng.choice(URL_LABELS) if rng.random() < 0.85 else (gen_text(rng, 1, 2, blanks=False).replace(",", ";") or "L")] = rng.choice(URLS)
    d["urls"] = [[k2, v] for k2, v in urls.items()]
    d["python"] = rng.choice([None, None] + list(range(len(PY_RANGES))))
    d["python_union"] = None
    nreadme = rng.choice([0, 1, 1, 1, 2, 3])
    names = rng.sample(README_NAMES, nreadme)
    d["readmes"] = [[nm, gen_multiline(rng, 0, 8) if rng.random() < 0.9 else ""] for nm in names]
    d["readme_ctype"] = rng.choice([None, None, "text/markdown", "text/x-rst; charset=UTF-8", "text/plain", "text/markdown; variant=GFM"])
    d["readme_inline"] = len(d["readmes"]) == 1 and rng.random() < 0.2   # [project].readme = {text = …, content-type = …}
    deps = rng.sample(DEPS, rng.choice([0, 0, 1, 2, 3]))
    extras = rng.sample(EXTRA_NAMES, rng.choice([0, 0, 1, 2]))
    d["deps"] = [[n2, spec, (rng.choice(extras) if extras and rng.random() < 0.5 else None)] for n2, spec in deps]
    if d["deps"] and rng.random() < 0.3:
        # a "multiple constraints" dependency: the same requirement twice under complementary python conditions (4th field);
        # the two objects are equal under Dependency.__eq__, which ignores the condition
        k = rng.randrange(len(d["deps"]))
        n2, spec, ex = d["deps"][k]
        cut = rng.choice(["3.9", "3.11"])
        d["deps"][k:k + 1] = [[n2, spec, ex, "<" + cut], [n2, spec, ex, ">=" + cut]]
    return d


def dep_fields(e: list[Any]) -> tuple[str, str, Any, Any]:
    """(name, specifier, extra or None, python condition or None) of one entry of d["deps"]"""
    return e[0], e[1], e[2], (e[3] if len(e) > 3 else None)


def py_marker(py: str) -> str:
    op = ">=" if py.startswith(">=") else "<"
    return f'python_version {op} "{py[len(op):]}"'


# ----------------------------------------------------------------------------------------
# abstract description -> pyproject document (both table styles)
# ----------------------------------------------------------------------------------------

def used_extras(d: dict[str, Any]) -> list[str]:
    out: list[str] = []
    for e in d["deps"]:
        ex = e[2]
        if ex and ex not in out:
            out.append(ex)
    return out


def render_project(d: dict[str, Any]) -> tuple[dict[str, Any], dict[str, str]] | None:
    """PEP 621 style; dynamic classifiers need the documented `dynamic` + [tool.poetry].classifiers form"""
    files: dict[str, str] = {}
    p: dict[str, Any] = {"name": d["name"], "version": d["version"]}
    tool: dict[str, Any] = {}
    if d["description"]:
        p["description"] = d["description"]
    for key in ("authors", "maintainers"):
        if d[key]:
            p[key] = [Inline({k: v for k, v in person.items() if v is not None}) for person in d[key]]
    lic = d["license"]
    if lic:
        if lic["kind"] == "id":
            p["license"] = lic["text"] if d.get("license_as_table") is not True else Inline({"text": lic["text"]})
        elif lic["kind"] == "text":
            p["license"] = Inline({"text": lic["text"]})
        else:
            p["license"] = Inline({"file": "LICENSE.custom"})
            files["LICENSE.custom"] = lic["text"]
    if d["keywords"]:
        p["keywords"] = d["keywords"]
    if d["classifiers"]:
        if d["classifiers_static"]:
            p["classifiers"] = d["classifiers"]
        else:
            p["dynamic"] = ["classifiers"]
            tool["classifiers"] = d["classifiers"]
    if d["urls"]:
        p["urls"] = {k: v for k, v in d["urls"]}
    if d["python_union"] is not None:
        return None
    if d["python"] is not None:
        p["requires-python"] = PY_RANGES[d["python"]][1]
    if len(d["readmes"]) > 1:
        return None
    if d["readmes"] and d.get("readme_inline"):
        p["readme"] = Inline({"text": d["readmes"][0][1], "content-type": d["readme_ctype"] or "text/plain"})
    elif d["readmes"]:
        nm, content = d["readmes"][0]
        files[nm] = content
        if d["readme_ctype"]:
            p["readme"] = Inline({"file": nm, "content-type": d["readme_ctype"]})
        else:
            p["readme"] = nm
    def req(e: list[Any]) -> str:
        n, s, _ex, py = dep_fields(e)
        return f"{n}{s}" + (f" ; {py_marker(py)}" if py else "")
    deps = [req(e) for e in d["deps"] if e[2] is None]
    if deps:
        p["dependencies"] = deps
    opt: dict[str, list[str]] = {}
    for e in d["deps"]:
        if e[2] is not None:
            opt.setdefault(e[2], []).append(req(e))
    if opt:
        p["optional-dependencies"] = opt
    doc: dict[str, Any] = {"project": p}
    if tool:
        doc["tool"] = {"poetry": tool}
    return doc, files


def render_legacy(d: dict[str, Any]) -> tuple[dict[str, Any], dict[str, str]] | None:
    files: dict[str, str] = {}
    t: dict[str, Any] = {"name": d["name"], "version": d["version"], "description": d["description"]}
    for key in ("authors", "maintainers"):
        if d[key] or key == "authors":
            t[key] = [(f"{p['name']} <{p['email']}>" if p["email"] else p["name"]) for p in d[key]]
    lic = d["license"]
    if lic:
        if lic["kind"] == "file":
            return None
        t["license"] = lic["text"]
    if d["keywords"]:
        t["keywords"] = d["keywords"]
    if d["classifiers"]:
        if d["classifiers_static"]:
            return None
        t["classifiers"] = d["classifiers"]
    custom: dict[str, str] = {}
    for k, v in d["urls"]:
        lk = k.lower()
        if lk in ("homepage", "repository", "documentation"):
            t[lk] = v  # a later spelling of the same key overrides, as in the [project] mapping
        else:
            custom[k] = v
    if custom:
        t["urls"] = custom
    deps: dict[str, Any] = {}
    if d["python_union"] is not None:
        deps["python"] = PY_UNIONS[d["python_union"]]
    elif d["python"] is not None:
        deps["python"] = PY_RANGES[d["python"]][0]
    if (d["readme_ctype"] or d.get("readme_inline")) and d["readmes"]:
        return None
    if d["readmes"]:
        for nm, content in d["readmes"]:
            files[nm] = content
        t["readme"] = d["readmes"][0][0] if len(d["readmes"]) == 1 else [nm for nm, _ in d["readmes"]]
    def table(e: list[Any]) -> Any:
        _n, s, ex, py = dep_fields(e)
        if ex is None and py is None:
            return s
        t2: dict[str, Any] = {"version": s}
        if py:
            t2["python"] = py
        if ex is not None:
            t2["optional"] = True
        return Inline(t2)
    for e in d["deps"]:
        same = [x for x in d["deps"] if x[0] == e[0]]
        deps[e[0]] = table(e) if len(same) == 1 else [table(x) for x in same]
    if deps:
        t["dependencies"] = deps
    extras: dict[str, list[str]] = {}
    for e in d["deps"]:
        if e[2] is not None and e[0] not in extras.setdefault(e[2], []):
            extras[e[2]].append(e[0])
    if extras:
        t["extras"] = extras
    return {"tool": {"poetry": t}}, files


# ----------------------------------------------------------------------------------------
# the real code
# ----------------------------------------------------------------------------------------

class Real:
    def __init__(self) -> None:
        self.rejected: list[str] | None = None   # validation errors
        self.exc: str | None = None              # exception class at create/build
        self.exc_msg = ""
        self.metadata: bytes | None = None       # wheel METADATA
        self.pkg_info: bytes | None = None       # sdist PKG-INFO
        self.meta_items: list[str] = []          # Metadata.from_package dump
        self.inputs: dict[str, Any] = {}         # inputs of the model taken from the real objects


_SCRATCH: Path | None = None


def scratch() -> Path:
    global _SCRATCH
    if _SCRATCH is None or not _SCRATCH.exists():
        _SCRATCH = Path(tempfile.mkdtemp(prefix="c14_"))
    return _SCRATCH


def cleanup() -> None:
    global _SCRATCH
    if _SCRATCH is not None:
        shutil.rmtree(_SCRATCH, ignore_errors=True)
        _SCRATCH = None


_COMPILE_CACHED = False


def memoise_schema_compile() -> None:
    """poetry-core compiles both JSON schemas anew on every validate() (~45 ms each, 90 % of a build here).
    `fastjsonschema.compile` is a pure function of the schema, so the harness memoises it per schema text
    (in-process wrapper, nothing in /repo is touched; a changed schema file gives a new key)."""
    global _COMPILE_CACHED
    if _COMPILE_CACHED:
        return
    import poetry.core.json as pj
    fjs = pj.fastjsonschema
    orig = fjs.compile
    cache: dict[str, Any] = {}

    def compile_cached(definition: Any, *a: Any, **k: Any) -> Any:
        if a or k:
            return orig(definition, *a, **k)
        key = json.dumps(definition, sort_keys=True)
        if key not in cache:
            cache[key] = orig(definition)
        return cache[key]
    fjs.compile = compile_cached
    _COMPILE_CACHED = True


def dump_metadata_obj(m: Any) -> list[str]:
    items = [f"name={m.name}", f"version={m.version}", f"summary={m.summary}"]

    def opt(tag: str, v: Any) -> None:
        if v is not None:
            items.append(f"{tag}={v}")
    opt("license", m.license)
    items.append(f"keywords={m.keywords}")
    opt("author", m.author)
    opt("author_email", m.author_email)
    opt("maintainer", m.maintainer)
    opt("maintainer_email", m.maintainer_email)
    opt("requires_python", m.requires_python)
    items += [f"classifier={c}" for c in m.classifiers]
    items += [f"provides_extra={c}" for c in m.provides_extra]
    items += [f"requires_dist={c}" for c in m.requires_dist]
    items += [f"project_url={c}" for c in m.project_urls]
    opt("description_content_type", m.description_content_type)
    opt("description", m.description)
    return items


def dep_object_strings(pkg: Any) -> list[str]:
    """the strings stored in the dependency objects that `to_pep_508` prints (hypothesis `Objects.requiresDistObjects` /
    `DepLineFree` of the validation theorem): names, extras, source url / reference / subdirectory, texts of the
    constraint bounds, strings in the marker leaves"""
    out: list[str] = []

    def bounds(c: Any) -> None:
        for r in (getattr(c, "ranges", None) or [c]):
            for v in (getattr(r, "min", None), getattr(r, "max", None)):
                if v is not None:
                    out.append(v.text)
            if hasattr(r, "text") and not hasattr(r, "min"):
                out.append(r.text)

    def leaves(m: Any) -> None:
        for sub in (getattr(m, "markers", None) or []):
            leaves(sub)
        if hasattr(m, "name") and hasattr(m, "value"):
            out.extend([str(m.name), str(m.value)])
    for dep in pkg.requires:
        out.append(dep.pretty_name)
        out.extend(dep.extras)
        out.extend(str(x) for x in (dep.source_url, dep.source_reference, dep.source_subdirectory) if x)
        out.extend(str(x) for x in dep.in_extras)
        bounds(dep.constraint)
        bounds(dep.python_constraint)
        leaves(dep.marker)
    return out


def real_build(doc: dict[str, Any], files: dict[str, str], full_sdist: bool = False) -> Real:
    from poetry.core.factory import Factory
    from poetry.core.masonry.builders.sdist import SdistBuilder
    from poetry.core.masonry.builders.wheel import WheelBuilder
    from poetry.core.masonry.metadata import Metadata
    from poetry.core.pyproject.toml import PyProjectTOML
    from poetry.core.spdx.helpers import license_by_id
    from poetry.core.version.helpers import format_python_constraint

    memoise_schema_compile()
    r = Real()
    root = Path(tempfile.mkdtemp(prefix="p_", dir=scratch()))
    try:
        (root / "pyproject.toml").write_text(toml_dumps(doc), encoding="utf-8", newline="\n")
        name = (doc.get("project", {}).get("name") or doc.get("tool", {}).get("poetry", {}).get("name") or "x")
        modname = re.sub(r"[-_.]+", "_", name).lower()
        try:
            if re.fullmatch(r"[a-z0-9_]+", modname):
                (root / modname).mkdir()
                (root / modname / "__init__.py").write_text("")
        except OSError:
            pass
        for fn, content in files.items():
            f = root / fn
            f.parent.mkdir(parents=True, exist_ok=True)
            f.write_bytes(content.encode("utf-8"))
        try:
            data = PyProjectTOML(root / "pyproject.toml").data
            res = Factory.validate(data)
            if res["errors"]:
                r.rejected = list(res["errors"])
                return r
            poetry = Factory().create_poetry(root)
            pkg = poetry.package
            meta = Metadata.from_package(pkg)
            r.meta_items = dump_metadata_obj(meta)
            wb = WheelBuilder(poetry)
            out = Path(tempfile.mkdtemp(prefix="o_", dir=scratch()))
            dist_info = wb.prepare_metadata(out)
            r.metadata = (dist_info / "METADATA").read_bytes()
            sb = SdistBuilder(poetry)
            r.pkg_info = sb.build_pkg_info()
            if full_sdist:
                import tarfile
                target = sb.build(out)
                with tarfile.open(target) as tf:
                    member = next(m for m in tf.getmembers() if m.name.count("/") == 1 and m.name.endswith("/PKG-INFO"))
                    r.pkg_info = tf.extractfile(member).read()  # type: ignore[union-attr]
            # inputs of the model that are taken from real objects (trusted / other properties)
            spdx = {}
            project = data.get("project", {})
            tool = data.get("tool", {}).get("poetry", {})
            raws = []
            pl = project.get("license")
            if isinstance(pl, str):
                raws.append(pl)
            elif isinstance(pl, dict):
                if pl.get("text"):
                    raws.append(pl["text"])
                elif pl.get("file"):
                    raws.append((root / pl["file"]).read_text(encoding="utf-8"))
            if tool.get("license"):
                raws.append(tool["license"])
            for raw in raws:
                if raw:
                    lic = license_by_id(raw)
                    spdx[raw] = [lic.id, lic.name, bool(lic.is_osi_approved), bool(lic.is_deprecated)]
            r.inputs = {
                "spdx": spdx,
                "extras": [str(e) for e in pkg.extras],
                "requires_dist": list(meta.requires_dist),
                "dep_strings": dep_object_strings(pkg),
                "format_python": format_python_constraint(pkg.python_constraint) if pkg.python_versions != "*" else "",
                "readme_stored": None if pkg.readme_content is None else str(pkg.readme_content),
                "readme_texts": [Path(p).read_text(encoding="utf-8") for p in pkg.readmes],
                "root": str(root),
            }
        except Exception as e:  # noqa: BLE001
            r.exc = type(e).__name__
            r.exc_msg = str(e)[:200]
        return r
    finally:
        shutil.rmtree(root, ignore_errors=True)


# ----------------------------------------------------------------------------------------
# the model side
# ----------------------------------------------------------------------------------------

def model_line(doc: dict[str, Any], files: dict[str, str], real: Real, op: str = "meta") -> str:
    """pyproject-level fields + the real-object inputs → driver request `meta`"""
    a: list[str] = []
    p = doc.get("project", {})
    t = doc.get("tool", {}).get("poetry", {})
    root = real.inputs.get("root", "")

    def kv(k: str, *vs: str) -> None:
        a.append(k)
        a.extend(vs)
    for k in ("name", "version", "description"):
        if k in p:
            kv("p." + k, p[k])
        if k in t:
            kv("t." + k, t[k])
    for key, tag in (("authors", "author"), ("maintainers", "maintainer")):
        for person in p.get(key, []):
            kv("p." + tag, "")
            if "name" in person:
                kv(f"p.{tag}.name", nfc(person["name"]))
            if "email" in person:
                kv(f"p.{tag}.email", nfc(person["email"]))
        for s in t.get(key, []):
            kv("t." + tag, nfc(s))
    pl = p.get("license")
    if isinstance(pl, str):
        kv("p.license.str", pl)
    elif isinstance(pl, dict):
        if "text" in pl:
            kv("p.license.text", pl["text"])
        elif "file" in pl:
            kv("p.license.file", text_mode(files.get(pl["file"], "")))
    if "license" in t:
        kv("t.license", t["license"])
    if "requires-python" in p:
        kv("p.requires-python", p["requires-python"])
    py = t.get("dependencies", {}).get("python")
    if isinstance(py, str):
        kv("t.python", py)
    for k in p.get("keywords", []):
        kv("p.keyword", k)
    for k in t.get("keywords", []):
        kv("t.keyword", k)
    for k in p.get("classifiers", []):
        kv("p.classifier", k)
    for k in t.get("classifiers", []):
        kv("t.classifier", k)
    for k, v in p.get("urls", {}).items():
        kv("p.urls", k, v)
    for k in ("homepage", "repository", "documentation"):
        if k in t:
            kv("t." + k, t[k])
    if "urls" in t:
        kv("t.urls.empty", "")
        for k, v in t["urls"].items():
            kv("t.urls", k, v)
    rd = p.get("readme")
    if isinstance(rd, str):
        kv("p.readme.path", root + "/" + rd)
    elif isinstance(rd, dict):
        if "file" in rd:
            kv("p.readme.file", root + "/" + rd["file"], rd["content-type"])
        elif "text" in rd:
            kv("p.readme.text", rd["text"], rd["content-type"])
    tr = t.get("readme")
    for x in ([tr] if isinstance(tr, str) else (tr or [])):
        kv("t.readme", (root + "/" + x) if x else "")
    for raw, (lid, lname, osi, dep) in real.inputs.get("spdx", {}).items():
        kv("spdx", raw, lid, lname, "1" if osi else "0", "1" if dep else "0")
    if real.inputs.get("readme_stored") is not None:
        kv("readme.stored", real.inputs["readme_stored"])
    for e in real.inputs.get("extras", []):
        kv("extra", e)
    for e in real.inputs.get("requires_dist", []):
        kv("requires_dist", e)
    for e in real.inputs.get("readme_texts", []):
        kv("readme.content", e)
    kv("format_python", real.inputs.get("format_python", ""))
    # inputs of the validator model only
    for nm in (p.get("optional-dependencies") or {}):
        kv("p.optdep", nm)
    for nm in (t.get("extras") or {}):
        kv("t.extraname", nm)
    deps = t.get("dependencies")
    for nm, specs in (deps.items() if isinstance(deps, dict) else ()):
        kv("t.dep", nm)
        for spec in (specs if isinstance(specs, list) else [specs]):
            kv("t.dep.spec", "")
            if isinstance(spec, dict):
                for k2, v2 in spec.items():
                    if isinstance(v2, str):
                        kv("t.dep.kv", k2, v2)
                for e in (spec.get("extras") or []):
                    if isinstance(e, str):
                        kv("t.dep.extra", e)
    return core.line(op, *a)


def parse_msg_reply(f: list[str]) -> dict[str, Any]:
    """fields produced by Drv.Meta.msgFields"""
    pairs = f[4:]
    return {"unixfrom": f[1] if f[0] == "1" else None, "body": f[2], "defects": [x for x in f[3].split(",") if x],
            "headers": [(pairs[i], pairs[i + 1]) for i in range(0, len(pairs) - 1, 2)]}


def email_parse(text: str) -> dict[str, Any]:
    m = email.parser.HeaderParser().parsestr(text)
    return {"unixfrom": m.get_unixfrom(), "body": m.get_payload(), "defects": [type(x).__name__ for x in m.defects],
            "headers": [(k, str(v)) for k, v in m.items()]}


def transportable(s: str) -> bool:
    return core.valid_utf8(s)


# ----------------------------------------------------------------------------------------
# the property oracle (independent of the model): declared fields vs parsed METADATA
# ----------------------------------------------------------------------------------------

def text_mode(s: str) -> str:
    """what Path.read_text gives for file content s (universal newlines)"""
    return re.sub("\r\n|\r", "\n", s)


def lstrip_ws(s: str) -> str:
    return s.lstrip(" \t")


def pep685(name: str) -> str:
    return re.sub(r"[-_.]+", "-", name).lower()


LICENSE_PREFIX = " " * len("License: ")


def unindent_license(v: str) -> str:
    lines = v.splitlines(True)
    return "".join(ln if i == 0 else (ln[len(LICENSE_PREFIX):] if ln.startswith(LICENSE_PREFIX) else "\0BAD" + ln) for i, ln in enumerate(lines))


def expected_python_classifiers(rng_idx: int | None) -> list[str]:
    from poetry.core.packages.package import Package
    avail = sorted(Package.AVAILABLE_PYTHONS, key=lambda x: tuple(map(int, x.split("."))))
    if rng_idx is None:
        lo, hi = None, None
    else:
        _p, _t, lo, hi = PY_RANGES[rng_idx]

    def minor_ok(mj: int, mn: int) -> bool:
        if lo is None:
            return (mj, mn) == (2, 7) or (mj == 3 and mn >= 4)
        return (mj, mn) >= lo and (hi is None or (mj, mn) < hi)
    out = []
    for v in avail:
        parts = tuple(map(int, v.split(".")))
        if len(parts) == 1:
            # major X stands for X.*: some X.m is admitted
            ok = any(minor_ok(parts[0], mn) for mn in range(0, 60))
        else:
            ok = minor_ok(parts[0], parts[1])
        if ok:
            out.append(f"Programming Language :: Python :: {v}")
    return out


def license_expect(d: dict[str, Any]) -> tuple[str | None, str | None]:
    """(expected License value after unindenting, expected licence classifier or None = not checked)"""
    lic = d["license"]
    if not lic or not lic["text"]:
        return None, None
    from poetry.core.spdx.helpers import license_by_id
    text = text_mode(lic["text"]) if lic["kind"] == "file" else lic["text"]
    if lic["kind"] == "id":
        canon = license_by_id(text).id          # SPDX table is trusted: canonical spelling of the id
        return canon, LICENSE_CLASSIFIER.get(canon)
    known = license_by_id(text)
    if known.id != text:                        # free text that happens to be an SPDX id/name
        return known.id, None
    return text.strip(), LICENSE_CLASSIFIER["<custom>"]


def oracle(d: dict[str, Any], style: str, text: str) -> list[tuple[str, str]]:
    """list of (aspect, message) where the parsed METADATA differs from what `d` declares"""
    bad: list[tuple[str, str]] = []
    pm = email_parse(text)
    mfs = email.message_from_string(text)
    if [(k, str(v)) for k, v in mfs.items()] != pm["headers"] or (not mfs.is_multipart() and mfs.get_payload() != pm["body"]):
        bad.append(("parser", "message_from_string and HeaderParser disagree"))
    if pm["unixfrom"] is not None or pm["defects"]:
        bad.append(("wellformed", f"unixfrom={pm['unixfrom']!r} defects={pm['defects']}"))
    hs: HeaderList = pm["headers"]
    got: dict[str, list[str]] = {}
    for k, v in hs:
        got.setdefault(k, []).append(v)

    def single(name: str, want: str | None, aspect: str | None = None, cmp: Any = None) -> None:
        vals = got.pop(name, [])
        if want is None:
            if vals:
                bad.append((aspect or name, f"{name} present {vals!r} but nothing declared"))
            return
        if len(vals) != 1:
            bad.append((aspect or name, f"{name}: expected one value {want!r}, got {vals!r}"))
            return
        ok = cmp(vals[0]) if cmp else vals[0] == lstrip_ws(want)
        if not ok:
            bad.append((aspect or name, f"{name}: declared {want!r}, parsed {vals[0]!r}"))

    single("Metadata-Version", "2.3")
    single("Name", d["name"])
    from packaging.version import Version as RefVersion  # vendored copy; reference for the PEP 440 normal form
    single("Version", str(RefVersion(d["version"])))
    single("Summary", d["description"])
    single("Keywords", ",".join(d["keywords"]) if d["keywords"] else None)
    for key, hn, he in (("authors", "Author", "Author-email"), ("maintainers", "Maintainer", "Maintainer-email")):
        first = d[key][0] if d[key] else None
        nm = nfc(first["name"]) if first and first.get("name") else None
        em = nfc(first["email"]) if first and first.get("email") else None
        if nm is not None and not lstrip_ws(nm) and key:  # a blank name is written as an empty header
            nm = ""
        single(hn, nm)
        single(he, em)
    lic_want, lic_classifier = license_expect(d)
    if d["license"] and d["license"]["text"]:
        single("License", lic_want, cmp=lambda v: unindent_license(v) == lic_want)
    else:
        single("License", None)
    # classifiers
    cls = got.pop("Classifier", [])
    if d["classifiers_static"]:
        if cls != [lstrip_ws(c) for c in d["classifiers"]]:
            bad.append(("Classifier", f"static classifiers {d['classifiers']!r} rendered as {cls!r}"))
    else:
        py = expected_python_classifiers(d["python"]) if d["python_union"] is None else None
        if len(set(cls)) != len(cls):
            bad.append(("Classifier", f"duplicates in {cls!r}"))
        declared = {lstrip_ws(c) for c in d["classifiers"]}
        if py is not None:
            want = declared | set(py) | ({lic_classifier} if lic_classifier else set())
            extra_lic = {c for c in cls if c.startswith("License ::")} - want if (d["license"] and lic_classifier is None) else set()
            if set(cls) - extra_lic != want or len(extra_lic) > 1:
                bad.append(("Classifier", f"classifier set differs: missing {sorted(want - set(cls))}, unexpected {sorted(set(cls) - want - extra_lic)}"))
            pyset = set(py)
            back = {lstrip_ws(c): c for c in d["classifiers"]}   # the code sorts what was declared (leading blanks included)
            rest = [back.get(c, c) for c in cls if c not in pyset]
            if rest != sorted(rest):
                bad.append(("Classifier", f"declared/licence classifiers not sorted: {rest!r}"))
            if [c for c in cls if c in pyset] != py:
                bad.append(("Classifier", "python classifiers not in version order"))
            idx = [i for i, c in enumerate(cls) if c in pyset]
            if idx and idx != list(range(idx[0], idx[0] + len(idx))):
                bad.append(("Classifier", "python classifiers not contiguous"))
    # urls
    urls = got.pop("Project-URL", [])
    want_urls: dict[str, str] = {}
    for k, v in d["urls"]:
        lk = k.lower()
        want_urls[{"homepage": "Homepage", "repository": "Repository", "documentation": "Documentation"}.get(lk, k)] = v
    if sorted(urls) != sorted(lstrip_ws(f"{k}, {v}") for k, v in want_urls.items()):
        bad.append(("Project-URL", f"declared {want_urls!r}, parsed {urls!r}"))
    # requires-python
    if d["python_union"] is not None:
        got.pop("Requires-Python", None)   # semantic check is C11's; presence only
    else:
        single("Requires-Python", PY_RANGES[d["python"]][1] if d["python"] is not None else None)
    # extras / requires-dist
    ex = got.pop("Provides-Extra", [])
    want_ex = sorted({pep685(e) for e in used_extras(d)})
    if ex != want_ex:
        bad.append(("Provides-Extra", f"declared extras {used_extras(d)!r}, parsed {ex!r}"))
    rd = got.pop("Requires-Dist", [])
    if len(rd) != len(d["deps"]):
        bad.append(("Requires-Dist", f"{len(d['deps'])} dependencies declared, parsed {rd!r}"))
    else:
        from packaging.requirements import Requirement
        from packaging.utils import canonicalize_name
        seen = []
        for line in rd:
            try:
                rq = Requirement(line)
            except Exception:  # noqa: BLE001
                bad.append(("Requires-Dist", f"unparsable {line!r}"))
                continue
            seen.append((canonicalize_name(rq.name), str(rq.marker) if rq.marker else ""))
        for ent in d["deps"]:
            n, _s, e, py = dep_fields(ent)
            if py:
                # condition and membership both present in the marker of SOME line for that name (texts differ in parentheses)
                if not any(nm == canonicalize_name(n) and py_marker(py) in mk2 and ((f'extra == "{pep685(e)}"' in mk2) if e else "extra" not in mk2)
                           for nm, mk2 in seen):
                    bad.append(("Requires-Dist", f"dependency {n} (python {py}, extra {e}) not found in {rd!r}"))
                continue
            mk = f'extra == "{pep685(e)}"' if e else ""
            if (canonicalize_name(n), mk) not in seen:
                bad.append(("Requires-Dist", f"dependency {n} (extra {e}) not found in {rd!r}"))
    # content type and body
    if d.get("readme_inline") and d["readmes"] and not d["readmes"][0][1]:
        # `if package.readme_content:` - an empty inline text gives no body; the declared content-type is still written
        single("Description-Content-Type", d["readme_ctype"] or "text/plain")
        if pm["body"] != "":
            bad.append(("body", f"empty inline readme but body {pm['body'][:60]!r}"))
    elif d["readmes"]:
        want_ct = (d["readme_ctype"] or "text/plain") if d.get("readme_inline") else d["readme_ctype"] if (d["readme_ctype"] and style == "project") else \
            {".rst": "text/x-rst", ".md": "text/markdown", ".markdown": "text/markdown"}.get(Path(d["readmes"][0][0]).suffix, "text/plain")
        single("Description-Content-Type", want_ct)
        want_body = "\n".join(c if (_n == "<inline>" or d.get("readme_inline")) else text_mode(c) for _n, c in d["readmes"]) + "\n"
        if pm["body"] != want_body:
            bad.append(("body", f"readme body not verbatim: declared {want_body[:80]!r}, parsed {pm['body'][:80]!r}"))
    else:
        single("Description-Content-Type", None)
        if pm["body"] != "":
            bad.append(("body", f"no readme declared but body {pm['body'][:60]!r}"))
    for k, v in got.items():
        bad.append(("extra-header", f"header {k}: {v!r} was not declared by any field"))
    return bad


# ----------------------------------------------------------------------------------------
# streams
# ----------------------------------------------------------------------------------------

def header_multiset(text: str) -> list[tuple[str, str]]:
    return sorted(email_parse(text)["headers"])


def run_cases(ctx: core.Ctx, cases: list[dict[str, Any]], stream: str) -> None:
    """cases: {"d":…, "style":…, "doc":…, "files":…}.  Real build, model run, three comparisons, oracle."""
    reals: list[Real] = []
    for i, c in enumerate(cases):
        reals.append(real_build(c["doc"], c["files"], full_sdist=(i % 10 == 0)))
    lines = []
    idx = []
    for i, (c, r) in enumerate(zip(cases, reals)):
        if r.metadata is not None:
            ln = model_line(c["doc"], c["files"], r)
            lines.append(ln)
            idx.append(i)
    replies = core.run_driver(lines)
    model: dict[int, list[str]] = dict(zip(idx, replies))
    dis = 0
    printer_checks: list[tuple[str, str, str]] = []
    by_d: dict[int, dict[str, list[tuple[str, str]]]] = {}
    for i, (c, r) in enumerate(zip(cases, reals)):
        d, style = c["d"], c["style"]
        sig = toml_dumps(c["doc"]) + "\0" + json.dumps(c["files"], sort_keys=True)
        if r.rejected is not None:
            ctx.case(sig, nontrivial=False)
            ctx.count(f"{stream}:{style}:rejected")
            if c.get("expect_valid", True):
                # the generator promised a valid pyproject: harness defect, reported as disagreement of the stream
                dis += 1
                ctx.disagree(stream + ":generator-invalid", {"doc": to_jsonable(c["doc"])}, r.rejected, "expected valid")
            continue
        if r.exc is not None or r.metadata is None:
            ctx.case(sig, nontrivial=False)
            ctx.count(f"{stream}:{style}:exc:{r.exc}")
            if c.get("expect_valid", True):
                w = witness(c)
                ctx.violate(f"build-raises:{r.exc}", f"validation accepts the pyproject but building metadata raises {r.exc}: {r.exc_msg}", w)
            continue
        text = r.metadata.decode("utf-8")
        ctx.case(sig, nontrivial=True, sample={"style": style, "pyproject": toml_dumps(c["doc"])[:600], "METADATA": text[:500]} if i < 3 else None)
        ctx.count(f"{stream}:{style}:built")
        for feat, on in (("license-multiline", bool(d["license"]) and "\n" in (d["license"]["text"] or "")), ("readmes>1", len(d["readmes"]) > 1),
                         ("authors>1", len(d["authors"]) > 1), ("static-classifiers", d["classifiers_static"]), ("extras", bool(used_extras(d))),
                         ("urls", bool(d["urls"])), ("python", d["python"] is not None or d["python_union"] is not None)):
            if on:
                ctx.count(f"feature:{feat}")
        # hypothesis `Printers.extrasCanonical` of the validation theorem: every configured extra is canonicalize_name of a
        # key of the extras table of its style (canonicalize_name itself is tied to the model by the canonicalize-name stream)
        from packaging.utils import canonicalize_name as _canon
        raw_extras = list(c["doc"].get("project", {}).get("optional-dependencies", {})) + \
            list(c["doc"].get("tool", {}).get("poetry", {}).get("extras", {}))
        if not set(r.inputs.get("extras", [])) <= {str(_canon(k)) for k in raw_extras}:
            dis += 1
            ctx.disagree(stream + ":extras-canonical", {"doc": to_jsonable(c["doc"])}, r.inputs.get("extras"), raw_extras)
        # hypotheses `Printers.toolLinksFormat` / `Printers.spdxTable`: recorded for a batched check after the loop
        tp = c["doc"].get("tool", {}).get("poetry", {})
        for k in ("homepage", "repository", "documentation"):
            if isinstance(tp.get(k), str) and transportable(tp[k]):
                printer_checks.append(("urifmt", tp[k], "1"))
        for _raw, (lid, lname, _o, _d) in r.inputs.get("spdx", {}).items():
            from poetry.core.spdx.license import License as _Lic
            if lid in _Lic.CLASSIFIER_SUPPORTED and lid not in _Lic.CLASSIFIER_NAMES:
                printer_checks.append(("spdxname", lid, lname))
        bad_strings = [x for x in r.inputs.get("dep_strings", []) if "\n" in x or "\r" in x]
        if bad_strings:
            dis += 1
            ctx.disagree(stream + ":object-hypothesis", {"doc": to_jsonable(c["doc"])}, bad_strings[:3], "DepLineFree")
        # (1) PKG-INFO == METADATA
        if r.pkg_info != r.metadata:
            ctx.violate("pkginfo-differs", "sdist PKG-INFO differs from wheel METADATA", witness(c))
        # (2) model vs implementation: Metadata fields, rendered text, parsed fields
        m = model.get(i)
        if m is None or m[0] != "ok":
            dis += 1
            ctx.disagree(stream, {"doc": to_jsonable(c["doc"]), "files": c["files"]}, "built", m)
        else:
            n = int(m[1])
            items, rest = m[2:2 + n], m[2 + n:]
            mtext, mparse = rest[0], parse_msg_reply(rest[1:])
            ep = email_parse(text)
            if items != r.meta_items:
                dis += 1
                diff = [x for x in items if x not in r.meta_items][:3], [x for x in r.meta_items if x not in items][:3]
                ctx.disagree(stream + ":fields", {"doc": to_jsonable(c["doc"]), "files": c["files"]}, diff[1], diff[0])
            elif mtext != text:
                dis += 1
                ctx.disagree(stream + ":text", {"doc": to_jsonable(c["doc"]), "files": c["files"]}, text[:400], mtext[:400])
            elif (mparse["headers"], mparse["body"], mparse["unixfrom"], mparse["defects"]) != (ep["headers"], ep["body"], ep["unixfrom"], ep["defects"]):
                dis += 1
                ctx.disagree("rfc822:metadata", text, ep, mparse)
        # (3) property oracle
        bad = oracle(d, style, text)
        for aspect, msg in bad:
            key = c.get("finding_key") or f"unfaithful:{aspect}"
            ctx.violate(key, f"[{style}] {msg}", witness(c))
        by_d.setdefault(c["pair"], {})[style] = header_multiset(text)
    if printer_checks:
        uniq = sorted(set(printer_checks))
        for (op, arg, want), m in zip(uniq, core.run_driver([core.line(op, arg) for op, arg, _w in uniq])):
            if m != ["ok", want]:
                dis += 1
                ctx.disagree(stream + ":printer-hypothesis:" + op, arg, want, m)
    # (4) both styles yield the same fields
    for pair, both in by_d.items():
        if len(both) == 2 and both["project"] != both["legacy"]:
            a, b = both["project"], both["legacy"]
            diff = [x for x in a if x not in b][:3], [x for x in b if x not in a][:3]
            cs = [c for c in cases if c["pair"] == pair]
            ctx.violate("styles-differ", f"[project] and [tool.poetry] spellings of one project yield different fields: only project {diff[0]!r}, only legacy {diff[1]!r}",
                        {"kind": "pair", "d": cs[0]["d"]})
    ctx.stream(stream, len(cases), dis)


def witness(c: dict[str, Any], with_history: bool = True) -> dict[str, Any]:
    w = {"kind": "case", "d": c["d"], "style": c["style"], "doc": to_jsonable(c["doc"]), "files": c["files"],
         "finding_key": c.get("finding_key"), "expect_valid": c.get("expect_valid", True)}
    if with_history and c.get("history"):
        w["history"] = c["history"]      # the builds made just before in the same process (call-history stream)
    return w


def cases_of(d: dict[str, Any], pair: int) -> list[dict[str, Any]]:
    out = []
    for style, fn in (("project", render_project), ("legacy", render_legacy)):
        r = fn(d)
        if r is not None:
            c: dict[str, Any] = {"d": d, "style": style, "doc": r[0], "files": r[1], "pair": pair}
            if d.get("readme_inline") and d["readmes"]:
                c["finding_key"] = "project-readme-text-as-path"   # key used should the pre-fix behaviour come back
            out.append(c)
    return out


def gen_cases(ctx: core.Ctx, n_pyprojects: int) -> list[dict[str, Any]]:
    cases: list[dict[str, Any]] = []
    pair = 0
    while len(cases) < n_pyprojects:
        d = gen_description(ctx.rng)
        k = ctx.rng.random()
        if k < 0.12:   # legacy-only features
            d["python"], d["python_union"] = None, ctx.rng.randrange(len(PY_UNIONS))
        if k > 0.9:
            d["version"] = gen_version(ctx.rng, project_ok=False)
        cs = cases_of(d, pair)
        if k > 0.9:
            cs = [c for c in cs if c["style"] == "legacy"]
        pair += 1
        cases += cs
    return cases


def _recase(rng: Any, t: str) -> str:
    alts = [x for x in (t.upper(), t.lower(), t.swapcase(), t.title()) if x != t]
    return rng.choice(alts) if alts else t


def case_variants(rng: Any, d: dict[str, Any], n: int = 3) -> list[dict[str, Any]]:
    """descriptions that differ from `d` in the letter case of ONE free-text field (licence text, description, a keyword,
    a person's name, a URL label): values a table keyed by a normalised spelling would confuse"""
    import copy
    out = []
    for _ in range(n):
        v = copy.deepcopy(d)
        k = rng.random()
        if v.get("license") and v["license"].get("text") and k < 0.5:
            v["license"]["text"] = _recase(rng, v["license"]["text"])
        elif v.get("keywords") and k < 0.65:
            i = rng.randrange(len(v["keywords"]))
            v["keywords"][i] = _recase(rng, v["keywords"][i])
        elif v.get("authors") and k < 0.8 and isinstance(v["authors"][0], dict) and v["authors"][0].get("name"):
            v["authors"][0]["name"] = _recase(rng, v["authors"][0]["name"])
        elif v.get("description"):
            v["description"] = _recase(rng, v["description"])
        elif v.get("license") and v["license"].get("text"):
            v["license"]["text"] = _recase(rng, v["license"]["text"])
        else:
            continue
        if v != d:
            out.append(v)
    return out


def gen_history_cases(ctx: core.Ctx, n_pyprojects: int) -> list[dict[str, Any]]:
    """groups built one after the other in this process: a description, then variants that differ in the letter case of one
    free-text field.  Each case carries the (up to four) builds made just before it, so that a replay repeats them."""
    cases: list[dict[str, Any]] = []
    pair = 10 ** 6
    while len(cases) < n_pyprojects:
        d = gen_description(ctx.rng)
        if ctx.rng.random() < 0.6 and not (d.get("license") and d["license"]["kind"] == "text"):
            d["license"] = {"kind": "text", "text": gen_multiline(ctx.rng)}
        prev: list[dict[str, Any]] = []
        for dv in [d, *case_variants(ctx.rng, d)]:
            cs = cases_of(dv, pair)
            pair += 1
            for c in cs:
                c["history"] = [witness(p, with_history=False) for p in prev[-4:]]
            prev += cs
            cases += cs
    return cases


# --- malformed stream: one field broken; validation (or construction) is expected to reject ------------

BREAKS = ["\n", "\r", "\r\n"]
INJECT = "Requires-Dist: evil-package"


def gen_malformed(ctx: core.Ctx, n: int) -> list[dict[str, Any]]:
    rng = ctx.rng
    out: list[dict[str, Any]] = []
    pair = 10 ** 6
    while len(out) < n:
        d = gen_description(rng)
        d["python_union"] = None
        if not d["authors"]:
            d["authors"] = [gen_person(rng)]
        style = rng.choice(["project", "legacy"])
        r = (render_project if style == "project" else render_legacy)(d)
        if r is None:
            continue
        doc, files = r
        tbl = doc["project"] if style == "project" else doc["tool"]["poetry"]
        brk = rng.choice(BREAKS)
        kind = rng.choice(["description", "keywords", "author-name", "author-email", "url-label", "url-value", "classifier", "content-type",
                           "name", "version", "bad-email", "bad-uri", "bad-name", "bad-version", "requires-python", "homepage", "extra-name",
                           "dependency", "requires-python-trailing", "extra-trailing", "legacy-dep-name", "legacy-dep-source", "legacy-dep-extras"])
        key: str | None = None
        if kind == "description":
            tbl["description"] = (d["description"] or "x") + brk + INJECT
            key = "project-description-newline" if (style == "project" and brk == "\n") else "description-carriage-return" if brk == "\r" else \
                ("project-description-newline" if style == "project" else "legacy-description-newline")
        elif kind == "keywords":
            tbl["keywords"] = ["kw" + brk + INJECT]
            key = "keywords-line-break"
        elif kind == "author-name":
            which = rng.choice(["authors", "maintainers"])
            if style == "project":
                tbl[which] = [Inline({"name": "A" + brk + INJECT, "email": "a@b.c"})]
            else:
                tbl[which] = ["A" + brk + INJECT + " <a@b.c>"]
            key = "author-name-line-break"
        elif kind == "author-email":
            if style == "project":
                tbl["authors"] = [Inline({"name": "A", "email": "a@b.c" + brk + INJECT})]
            else:
                tbl["authors"] = ["A <a@b.c" + brk + INJECT + ">"]
            key = "author-email-line-break"
        elif kind == "url-label":
            tbl.setdefault("urls", {})["Label" + brk + INJECT] = "https://example.com/"
            key = "url-line-break"
        elif kind == "url-value":
            tbl.setdefault("urls", {})["Label"] = "https://example.com/" + brk + INJECT
            key = "url-line-break"
        elif kind == "homepage" and style == "legacy":
            tbl["homepage"] = "https://example.com/" + brk + INJECT
            key = "url-line-break"
        elif kind == "classifier":
            tbl["classifiers"] = ["Topic :: X" + brk + INJECT]
            key = "classifier-line-break"
        elif kind == "content-type" and style == "project":
            files["R.md"] = "hello\n"
            tbl["readme"] = Inline({"file": "R.md", "content-type": "text/markdown" + brk + INJECT})
            key = "readme-content-type-line-break"
        elif kind == "name":
            tbl["name"] = d["name"] + brk + INJECT
            key = "name-line-break"
        elif kind == "version":
            tbl["version"] = d["version"] + brk + INJECT
            key = "version-line-break"
        elif kind == "requires-python" and style == "project":
            tbl["requires-python"] = ">=3.8" + brk + INJECT
            key = "requires-python-line-break"
        elif kind == "bad-email" and style == "project":
            tbl["authors"] = [Inline({"name": "A", "email": rng.choice(["not-an-email", "a@b", "@b.c", "a@@b.c"])})]
        elif kind == "bad-uri" and style == "project":
            tbl["urls"] = {"Label": rng.choice(["not a uri", "no-scheme", "http://with space/"])}
        elif kind == "bad-name" and style == "project":
            tbl["name"] = rng.choice(["-lead", "trail-", "sp ace", "ü", ""])
        elif kind == "bad-version":
            tbl["version"] = rng.choice(["one", "1.0.x", "1..0", "", "1.0-"])
        elif kind == "extra-name" and style == "project":
            tbl["optional-dependencies"] = {"ex" + brk + INJECT: ["foo"]}
            key = "extra-line-break"
        elif kind == "dependency" and style == "project":
            tbl["dependencies"] = ["foo>=1" + brk + INJECT]
            key = "dependency-line-break"
        elif kind == "requires-python-trailing" and style == "project":
            tbl["requires-python"] = rng.choice([">=3.8", ">=3.9,<4.0", "~=3.10"]) + rng.choice(["\n", "\r\n", "\n\n"])
            key = "requires-python-trailing-newline"
        elif kind == "extra-trailing":
            nm = rng.choice(["ex", "dev-tools", "X_y"]) + rng.choice(["\n", "\r\n"])
            if style == "project":
                tbl["optional-dependencies"] = {nm: ["foo>=1"]}
            else:
                tbl.setdefault("dependencies", {})["foo"] = Inline({"version": ">=1", "optional": True})
                tbl["extras"] = {nm: ["foo"]}
            key = "extra-name-trailing-newline"
        elif kind == "legacy-dep-name" and style == "legacy":
            tbl.setdefault("dependencies", {})["foo" + brk + INJECT] = "*"
            key = "dependency-source-line-break"
        elif kind == "legacy-dep-source" and style == "legacy":
            which = rng.choice(["url", "branch", "tag", "rev", "subdirectory"])
            spec = {"url": "https://example.com/foo-1.0.tar.gz"} if which == "url" else {"git": "https://example.com/foo.git", which: "x"}
            spec[which] = spec[which] + brk + INJECT
            tbl.setdefault("dependencies", {})["foo"] = Inline(spec)
            key = "dependency-source-line-break"
        elif kind == "legacy-dep-extras" and style == "legacy":
            tbl.setdefault("dependencies", {})["foo"] = Inline({"version": "*", "extras": ["a" + brk + INJECT]})
            key = "dependency-source-line-break"
        else:
            continue
        out.append({"d": d, "style": style, "doc": doc, "files": files, "pair": pair, "finding_key": key, "expect_valid": False, "kind": kind})
        pair += 1
    return out


def fixed_malformed() -> list[dict[str, Any]]:
    """one deterministic witness per line-break finding reported for this commit"""
    base = {"name": "pkg", "version": "1.0", "description": "d", "authors": [], "maintainers": [], "license": None, "keywords": [],
            "classifiers": [], "classifiers_static": False, "urls": [], "python": None, "python_union": None, "readmes": [], "readme_ctype": None,
            "deps": []}
    P = {"name": "pkg", "version": "1.0", "description": "d"}
    L = {"name": "pkg", "version": "1.0", "description": "d", "authors": []}
    inj = "\n" + INJECT
    injr = "\r" + INJECT
    rows: list[tuple[str, str, str, dict[str, Any], dict[str, str]]] = [
        ("project-description-newline", "project", "description", {"project": {**P, "description": "x" + inj}}, {}),
        ("description-carriage-return", "project", "description", {"project": {**P, "description": "x" + injr}}, {}),
        ("description-carriage-return", "legacy", "description", {"tool": {"poetry": {**L, "description": "x" + injr}}}, {}),
        ("keywords-line-break", "project", "keywords", {"project": {**P, "keywords": ["kw" + inj]}}, {}),
        ("keywords-line-break", "legacy", "keywords", {"tool": {"poetry": {**L, "keywords": ["kw" + inj]}}}, {}),
        ("author-name-line-break", "project", "author-name", {"project": {**P, "authors": [Inline({"name": "A" + inj, "email": "a@b.c"})]}}, {}),
        ("author-name-line-break", "legacy", "author-name", {"tool": {"poetry": {**L, "authors": ["A" + inj + " <a@b.c>"]}}}, {}),
        ("author-name-line-break", "project", "author-name", {"project": {**P, "maintainers": [Inline({"name": "A" + inj})]}}, {}),
        ("author-email-line-break", "project", "author-email", {"project": {**P, "authors": [Inline({"name": "A", "email": "a@b.c" + injr})]}}, {}),
        ("author-email-line-break", "legacy", "author-email", {"tool": {"poetry": {**L, "authors": ["A <a@b.c" + injr + ">"]}}}, {}),
        ("url-line-break", "project", "url-label", {"project": {**P, "urls": {"Label" + inj: "https://example.com/"}}}, {}),
        ("url-line-break", "legacy", "url-label", {"tool": {"poetry": {**L, "urls": {"Label" + inj: "https://example.com/"}}}}, {}),
        ("url-line-break", "legacy", "url-value", {"tool": {"poetry": {**L, "urls": {"Label": "https://example.com/" + inj}}}}, {}),
        ("classifier-line-break", "project", "classifier", {"project": {**P, "classifiers": ["Topic :: X" + inj]}}, {}),
        ("classifier-line-break", "legacy", "classifier", {"tool": {"poetry": {**L, "classifiers": ["Topic :: X" + inj]}}}, {}),
        ("readme-content-type-line-break", "project", "content-type",
         {"project": {**P, "readme": Inline({"file": "R.md", "content-type": "text/markdown" + inj})}}, {"R.md": "hello\n"}),
        ("name-line-break", "legacy", "name", {"tool": {"poetry": {**L, "name": "pkg" + inj}}}, {}),
        ("requires-python-trailing-newline", "project", "requires-python-trailing", {"project": {**P, "requires-python": ">=3.8\n"}}, {}),
        ("extra-name-trailing-newline", "project", "extra-trailing", {"project": {**P, "optional-dependencies": {"ex\n": ["foo>=1"]}}}, {}),
        ("extra-name-trailing-newline", "legacy", "extra-trailing",
         {"tool": {"poetry": {**L, "dependencies": {"foo": Inline({"version": ">=1", "optional": True})}, "extras": {"ex\n": ["foo"]}}}}, {}),
        ("dependency-source-line-break", "legacy", "legacy-dep-name", {"tool": {"poetry": {**L, "dependencies": {"foo" + inj: "*"}}}}, {}),
        ("dependency-source-line-break", "legacy", "legacy-dep-source",
         {"tool": {"poetry": {**L, "dependencies": {"foo": Inline({"git": "https://example.com/foo.git", "branch": "main" + inj})}}}}, {}),
        ("dependency-source-line-break", "legacy", "legacy-dep-source",
         {"tool": {"poetry": {**L, "dependencies": {"foo": Inline({"url": "https://example.com/foo-1.0.tar.gz" + inj})}}}}, {}),
        ("dependency-source-line-break", "legacy", "legacy-dep-extras",
         {"tool": {"poetry": {**L, "dependencies": {"foo": Inline({"version": "*", "extras": ["a" + inj]})}}}}, {}),
    ]
    return [{"d": base, "style": st, "doc": doc, "files": files, "pair": 3 * 10 ** 6 + i, "finding_key": key, "expect_valid": False, "kind": kind}
            for i, (key, st, kind, doc, files) in enumerate(rows)]


def run_malformed(ctx: core.Ctx, cases: list[dict[str, Any]], stream: str = "malformed") -> None:
    """rejected (error list or documented exception) is the expected outcome; an accepted one must still satisfy the property:
    the METADATA must not contain a header that no field declared"""
    for c in cases:
        r = real_build(c["doc"], c["files"])
        sig = toml_dumps(c["doc"])
        kind = c.get("kind", "?")
        if r.rejected is not None:
            ctx.case(sig, nontrivial=True)
            ctx.count(f"{stream}:{kind}:rejected-by-validation")
            continue
        if r.exc is not None:
            ctx.case(sig, nontrivial=True)
            ctx.count(f"{stream}:{kind}:raises-{r.exc}")
            if r.exc not in ("ValueError", "RuntimeError", "InvalidVersionError", "ParseConstraintError", "InvalidRequirementError", "InvalidMarkerError"):
                ctx.violate(f"malformed-crash:{r.exc}", f"malformed {kind} leads to {r.exc}: {r.exc_msg}", witness(c))
            continue
        ctx.case(sig, nontrivial=True)
        ctx.count(f"{stream}:{kind}:accepted")
        text = (r.metadata or b"").decode("utf-8")
        hs = email_parse(text)["headers"]
        injected = [(k, v) for k, v in hs if "evil-package" in v and k.lower() == "requires-dist"]
        if injected:
            ctx.violate(c.get("finding_key") or f"injection:{kind}",
                        f"[{c['style']}] a line break in {kind} is accepted by validation and adds the header {injected[0]!r} to METADATA", witness(c))
            continue
        # an accepted document must still be one header block followed by its readme: no defect, and a body only if
        # a readme was declared (a value ending in a line break leaves a blank line, which ends the header block early)
        pm = email_parse(text)
        has_readme = bool(c["doc"].get("project", {}).get("readme") or c["doc"].get("tool", {}).get("poetry", {}).get("readme"))
        if pm["defects"] or pm["unixfrom"] is not None or (not has_readme and pm["body"] != ""):
            ctx.violate(c.get("finding_key") or f"truncation:{kind}",
                        f"[{c['style']}] a line break in {kind} is accepted by validation and METADATA no longer parses as one header block: "
                        f"defects={pm['defects']} body starts {pm['body'][:60]!r}", witness(c))
    ctx.stream(stream, len(cases), 0)


def run_validator(ctx: core.Ctx, cases: list[dict[str, Any]], stream: str = "validator") -> None:
    """model of Factory._validate_single_line_fields (tables regenerated from source) vs the real method, both tables"""
    from poetry.core.factory import Factory
    lines = [model_line(c["doc"], c["files"], Real(), op="vsl") for c in cases]
    replies = core.run_driver(lines)
    dis = 0
    for c, m in zip(cases, replies):
        doc = c["doc"]
        want = ["ok"]
        for loc, table in (("project", doc.get("project")), ("tool.poetry", doc.get("tool", {}).get("poetry", {}))):
            want += Factory._validate_single_line_fields(loc, table or {})
        ctx.case("vsl:" + toml_dumps(doc), nontrivial=len(want) > 1)
        ctx.count("validator:" + ("errors" if len(want) > 1 else "clean"))
        if m != want:
            dis += 1
            ctx.disagree(stream, {"doc": to_jsonable(doc)}, want, m)
    ctx.stream(stream, len(cases), dis)


# --- fixed witnesses of the findings reported for this commit (each has its own known-finding key) ------------

def finding_cases() -> list[dict[str, Any]]:
    base = {"name": "pkg", "version": "1.0", "description": "d", "authors": [], "maintainers": [], "license": None, "keywords": [],
            "classifiers": [], "classifiers_static": False, "urls": [], "python": None, "python_union": None, "readmes": [], "readme_ctype": None,
            "readme_inline": False, "deps": []}
    out = []

    def add(key: str, style: str, d_over: dict[str, Any], doc: dict[str, Any], files: dict[str, str] | None = None) -> None:
        d = {**base, **d_over}
        out.append({"d": d, "style": style, "doc": doc, "files": files or {}, "pair": 2 * 10 ** 6 + len(out), "finding_key": key, "expect_valid": True})
    add("project-readme-text-as-path", "project", {"readmes": [["<inline>", "# Title\n\nBody text.\n"]], "readme_ctype": "text/markdown", "readme_inline": True},
        {"project": {"name": "pkg", "version": "1.0", "description": "d",
                     "readme": Inline({"text": "# Title\n\nBody text.\n", "content-type": "text/markdown"})}})
    add("project-author-email-only", "project", {"authors": [{"name": None, "email": "me@example.com"}]},
        {"project": {"name": "pkg", "version": "1.0", "description": "d", "authors": [Inline({"email": "me@example.com"})]}})
    add("project-author-name-angle-bracket", "project", {"authors": [{"name": "Jane <Doe>", "email": "jane@example.com"}]},
        {"project": {"name": "pkg", "version": "1.0", "description": "d", "authors": [Inline({"name": "Jane <Doe>", "email": "jane@example.com"})]}})
    return out


# --- Spec.Rfc822 vs email.parser ---------------------------------------------------------------------------

def gen_message(rng: Any) -> str:
    parts: list[str] = []
    for _ in range(rng.randint(0, 9)):
        k = rng.random()
        if k < 0.4:
            parts.append(rng.choice(["Name", "X-Y", "Requires-Dist", "a", "From", "Fromage", "License", "Ünï", "A B", "a\tb", "!#$%&'*+-.^_`|~"]) +
                         rng.choice([":", ": ", ":  ", " :", ":\t", ""]) + gen_text(rng, 0, 3))
        elif k < 0.55:
            parts.append(rng.choice([" ", "\t", "  ", " \t"]) + gen_text(rng, 0, 3))
        elif k < 0.65:
            parts.append("From " + gen_text(rng, 0, 2))
        elif k < 0.75:
            parts.append("")
        elif k < 0.8:
            parts.append(":" + gen_text(rng, 0, 2))
        elif k < 0.85:
            parts.append(rng.choice(ODD_BREAKS) + "x: y")
        else:
            parts.append(gen_text(rng, 0, 4))
        parts.append(rng.choice(["\n"] * 6 + ["\r\n", "\r", "", "\n\n", "\r\r", "\n\r"]))
    return "".join(parts)


def run_rfc822(ctx: core.Ctx, texts: list[str], stream: str = "rfc822") -> None:
    texts = [t for t in texts if transportable(t)]
    replies = core.run_driver([core.line("rfc822", t) for t in texts])
    dis = 0
    for t, m in zip(texts, replies):
        ep = email_parse(t)
        mp = parse_msg_reply(m[1:]) if m and m[0] == "ok" else None
        ctx.case("rfc:" + t, nontrivial=bool(ep["headers"]))
        ctx.count("rfc822:" + ("defect" if ep["defects"] else "clean"))
        if mp is None or (mp["headers"], mp["body"], mp["unixfrom"], mp["defects"]) != (ep["headers"], ep["body"], ep["unixfrom"], ep["defects"]):
            dis += 1
            ctx.disagree(stream, t, ep, mp)
    ctx.stream(stream, len(texts), dis)


# --- helper streams: AUTHOR_REGEX recogniser, licence indentation, python classifiers ------------------------

def run_helpers(ctx: core.Ctx, n: int) -> None:
    from poetry.core.utils.patterns import AUTHOR_REGEX
    import textwrap
    rng = ctx.rng
    authors = ["A <a@b.c>", "A", "a@b.c", "<a@b.c>", "A <a@b.c> ", "A <a@b.c>\n", "A\n", "A <>", "A < >", "A <a>b>", "A <a@b.c>>", "A  <x>", " <x>", "A <x>\n\n",
               "A<x>", "A <x\ny>", "A\nB <x>", "A <x> <y>", ">", "A >", "A <x\r>", "", " ", "A <x>\r"]
    for _ in range(n):
        s = gen_text(rng, 0, 3)
        if rng.random() < 0.6:
            s += rng.choice([" <", "<", " < ", "  <"]) + rng.choice(["a@b.c", "", "x>y", "x<y", "x\ny", gen_text(rng, 1, 2)]) + rng.choice([">", ">\n", "> ", ">>", "", ">\n\n", ">\r"])
        if rng.random() < 0.1:
            s += "\n"
        authors.append(nfc(s))
    authors = [a for a in authors if transportable(a)]
    rep = core.run_driver([core.line("authorsplit", a) for a in authors])
    dis = 0
    for a, m in zip(authors, rep):
        mo = AUTHOR_REGEX.match(a)
        want = ["nomatch"] if mo is None else ["ok", mo.group("name"), "1" if mo.group("email") is not None else "0", mo.group("email") or ""]
        ctx.case("au:" + a, nontrivial=mo is not None)
        if m != want:
            dis += 1
            ctx.disagree("author-regex", a, want, m)
    ctx.stream("author-regex", len(authors), dis)
    lics = ["MIT", "", " ", "a\nb", "a\n\nb\n", "\n\na", "a\r\nb", "a\rb", "a\x0bb", "a\x0cb\x1cc\x1dd\x1ee\x85f g h", " a \n b ", "a\n \n\t\nb", "\r\n", "a\n\r\nb"]
    lics += [gen_multiline(rng, 0, 6) for _ in range(n)]
    lics = [x for x in lics if transportable(x)]
    rep = core.run_driver([core.line("licval", x) for x in lics])
    dis = 0
    for x, m in zip(lics, rep):
        want = textwrap.indent(x, " " * len("License: "), lambda line: True).strip()
        ctx.case("lic:" + x, nontrivial="\n" in x)
        if m != ["ok", want]:
            dis += 1
            ctx.disagree("license-indent", x, want, m)
    ctx.stream("license-indent", len(lics), dis)
    # the schema format `uri` ([tool.poetry] homepage/repository/documentation): model recogniser vs the regular expression of
    # the vendored fastjsonschema (scheme part generated over ASCII: the model's \\w is ASCII)
    import re as _re
    from fastjsonschema.draft04 import CodeGeneratorDraft04
    uri_re = _re.compile(CodeGeneratorDraft04.FORMAT_REGEXS["uri"])
    uris = list(URLS) + ["", ":", "a:", "a:b", "a:/", "a://", "a:///x", "a b:c", "a:b c", "a:b\nc", "a:b\n", "\na:b", "a_1:x", "-a:b", "a-b:c", "a::b",
                         "http://x y", "http://x\ty", "http://x\x0by", "http://x\u00a0y", "http://x\u2028y", "http://é", "a:é日本", "http:/", "x:\r"]
    for _ in range(n):
        scheme = "".join(rng.choice("abcXYZ019_-+. ") for _ in range(rng.randint(0, 5)))
        rest = "".join(rng.choice(["/", "/", "a", "B", "0", ".", ":", "?", "#", " ", "\n", "\r", "\t", "é", "\u3000", "\x1c", "%", "@"]) for _ in range(rng.randint(0, 8)))
        uris.append(scheme + rng.choice([":", ":", ":", ""]) + rest)
    uris = [u for u in uris if transportable(u)]
    rep = core.run_driver([core.line("urifmt", x) for x in uris])
    dis = 0
    for x, m in zip(uris, rep):
        want = ["ok", "1" if uri_re.search(x) else "0"]
        ctx.case("uri:" + x, nontrivial=want[1] == "1")
        if m != want:
            dis += 1
            ctx.disagree("uri-format", x, want, m)
    ctx.stream("uri-format", len(uris), dis)
    # SPDX names that can be printed (supported licence ids without a classifier name): regenerated table vs license_by_id
    from poetry.core.spdx.helpers import license_by_id
    from poetry.core.spdx.license import License
    needed = sorted(License.CLASSIFIER_SUPPORTED - set(License.CLASSIFIER_NAMES))
    probes = needed + [x.lower() for x in needed] + ["MIT", "Apache-2.0", "not-a-licence"]
    rep = core.run_driver([core.line("spdxname", license_by_id(x).id) for x in probes])
    dis = 0
    for x, m in zip(probes, rep):
        lic = license_by_id(x)
        is_needed = lic.id in License.CLASSIFIER_SUPPORTED and lic.id not in License.CLASSIFIER_NAMES
        want = ["ok", lic.name if is_needed else m[1] if len(m) > 1 else ""]
        ctx.case("spdx:" + x, nontrivial=is_needed)
        if m != want:
            dis += 1
            ctx.disagree("spdx-names", x, want, m)
    ctx.stream("spdx-names", len(probes), dis)
    # canonicalize_name (names of extras): model vs packaging.utils.canonicalize_name
    from packaging.utils import canonicalize_name
    names = list(EXTRA_NAMES) + ["", "-", "a--b", "A_.-b", "..a..", "x y", "ex\tra", "Ex_A.b-C", "a\x0bb", "__", "a.B_c-D", "9-_-9"]
    for _ in range(n):
        names.append("".join(rng.choice("abcXYZ019-_. ") for _ in range(rng.randint(0, 10))))
    rep = core.run_driver([core.line("canon", x) for x in names])
    dis = 0
    for x, m in zip(names, rep):
        want = ["ok", str(canonicalize_name(x))]
        ctx.case("canon:" + x)
        if m != want:
            dis += 1
            ctx.disagree("canonicalize-name", x, want, m)
    ctx.stream("canonicalize-name", len(names), dis)
    # python classifiers from a range (model: VParser + VRange.allowsAny) vs Package.all_classifiers
    from poetry.core.packages.project_package import ProjectPackage
    ranges = [p for p, *_ in PY_RANGES] + PY_UNIONS + [">=3.8.1", "<3", ">=3", "3.9.*", "!=3.9.*,>=3.7", ">3.8", "<=3.8", "==3.8.*", ">=3.14", "~=3.8", "^2.7", "<3.4", "3.7.3"]
    rep = core.run_driver([core.line("pyclassifiers", x) for x in ranges])
    dis = 0
    for x, m in zip(ranges, rep):
        pkg = ProjectPackage("p", "1")
        pkg.python_versions = x
        want = ["ok"] + [c for c in pkg.all_classifiers if c.startswith("Programming Language :: Python :: ")]
        ctx.case("pyc:" + x)
        if m != want:
            dis += 1
            ctx.disagree("python-classifiers", x, want, m)
    ctx.stream("python-classifiers", len(ranges), dis)


# ----------------------------------------------------------------------------------------
# entry points
# ----------------------------------------------------------------------------------------

def correspondence(ctx: core.Ctx) -> None:
    try:
        run_helpers(ctx, ctx.budget(150, 3000))
        run_rfc822(ctx, [gen_message(ctx.rng) for _ in range(ctx.budget(600, 20000))])
        total = ctx.budget(300, 10000)
        chunk = 400
        done = 0
        while done < total:
            cases = gen_cases(ctx, min(chunk, total - done))
            run_cases(ctx, cases, "pyproject")
            done += len(cases)
        run_cases(ctx, gen_history_cases(ctx, ctx.budget(120, 3000)), "history")
        run_cases(ctx, finding_cases(), "findings")
        fixed = fixed_malformed()
        run_malformed(ctx, fixed, "malformed-fixed")
        mal = gen_malformed(ctx, ctx.budget(90, 1500))
        run_malformed(ctx, mal)
        run_validator(ctx, fixed + mal + gen_cases(ctx, ctx.budget(100, 2000)))
    finally:
        cleanup()


def search(ctx: core.Ctx) -> None:
    """proof or correspondence broke: look harder for a pyproject on which the property itself fails"""
    try:
        # the generated streams are the search space (the disagreeing documents came from them); the fixed witnesses first
        run_cases(ctx, finding_cases(), "search-findings")
        run_malformed(ctx, fixed_malformed(), "search-malformed")
        ctx.violations[:] = [v for v in ctx.violations if v.key not in core.known_keys(PROP)]
        total = 1500
        done = 0
        while done < total and not ctx.violations:
            cases = gen_cases(ctx, 300)
            run_cases(ctx, cases, "search")
            done += len(cases)
            ctx.violations[:] = [v for v in ctx.violations if v.key not in core.known_keys(PROP)]
    finally:
        cleanup()


def replay(ctx: core.Ctx, payload: dict[str, Any]) -> bool:
    w = payload.get("witness", payload)
    before = len(ctx.violations)
    try:
        if w.get("kind") == "pair":
            run_cases(ctx, cases_of(w["d"], 0), "replay")
        elif w.get("kind") == "case":
            c = {"d": w["d"], "style": w["style"], "doc": from_jsonable(w["doc"]), "files": w["files"], "pair": 0,
                 "finding_key": w.get("finding_key"), "expect_valid": w.get("expect_valid", True)}
            hist = [{"d": h["d"], "style": h["style"], "doc": from_jsonable(h["doc"]), "files": h["files"], "pair": -1 - i}
                    for i, h in enumerate(w.get("history", []))]
            if c["expect_valid"]:
                run_cases(ctx, [*hist, c], "replay")
            else:
                run_malformed(ctx, [c], "replay")
        elif w.get("kind") == "finding":
            cs = [c for c in finding_cases() if c["finding_key"] == w["key"]]
            if cs:
                run_cases(ctx, cs, "replay")
            ms = [c for c in fixed_malformed() if c["finding_key"] == w["key"]]
            if ms:
                run_malformed(ctx, ms, "replay")
    finally:
        cleanup()
    return len(ctx.violations) > before
