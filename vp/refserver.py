"""Reference side (packaging from /venv's site-packages, *not* poetry's vendored copy).

Run as a subprocess: reads a JSON list of requests on stdin, writes a JSON list of answers.
Must never import poetry.core (that would put the vendored packaging first on sys.path)."""
from __future__ import annotations

import json
import sys

from packaging.markers import InvalidMarker, Marker
from packaging.requirements import InvalidRequirement, Requirement
from packaging.specifiers import InvalidSpecifier, SpecifierSet
from packaging.utils import canonicalize_name
from packaging.version import InvalidVersion, Version


def sign(a, b) -> str:
    return "lt" if a < b else ("gt" if a > b else "eq")


VERSION_KEYS = {"python_version", "python_full_version", "platform_release", "implementation_version"}


def _item_eval(lhs, op, rhs, env: dict, extras: list) -> bool:
    """one marker item: packaging's own evaluation, except (as the properties state) non-reversed `in`/`not in`
    lists are by token and `extra` is membership of the normalised name in the set of active extras"""
    import re
    from packaging.markers import Variable
    opstr = op.serialize()
    if isinstance(lhs, Variable):
        key, lit = lhs.value, rhs.value
        if key == "extra":
            active = {canonicalize_name(x) for x in extras}
            if opstr == "==":
                return canonicalize_name(lit) in active
            if opstr == "!=":
                return canonicalize_name(lit) not in active
            raise ValueError("extra with " + opstr)
        if opstr in ("in", "not in"):
            toks = [t for t in re.split(r"[ ,|]+", lit) if t]
            if not toks:
                raise ValueError("empty list")
            ev = env[key]
            if key in VERSION_KEYS:
                hit = any(Version(ev) == Version(t) for t in toks)
            else:
                hit = ev in toks
            return hit if opstr == "in" else not hit
        qc = "'" if '"' in lit else '"'
        return Marker(f"{key} {opstr} {qc}{lit}{qc}").evaluate(env)
    key, lit = rhs.value, lhs.value
    qc = "'" if '"' in lit else '"'
    return Marker(f"{qc}{lit}{qc} {opstr} {key}").evaluate(env)


def _tok_eval(markers, env: dict, extras: list) -> bool:
    groups = [[]]
    for m in markers:
        if isinstance(m, list):
            groups[-1].append(_tok_eval(m, env, extras))
        elif isinstance(m, tuple):
            groups[-1].append(_item_eval(m[0], m[1], m[2], env, extras))
        elif m == "or":
            groups.append([])
    return any(all(g) for g in groups)


def handle(r: dict) -> object:
    op = r["op"]
    try:
        if op == "vparse":
            v = Version(r["s"])
            return ["ok", str(v)]
        if op == "vcmp":
            a, b = Version(r["a"]), Version(r["b"])
            return ["ok", sign(a, b), hash(a) == hash(b)]
        if op == "spec":
            ss = SpecifierSet(r["s"])
            return ["ok", [ss.contains(Version(v), prereleases=True) for v in r["vs"]]]
        if op == "specv":
            # like "spec", but a probe that is not a version answers null instead of failing the request
            ss = SpecifierSet(r["s"])
            out = []
            for v in r["vs"]:
                try:
                    out.append(ss.contains(Version(v), prereleases=True))
                except InvalidVersion:
                    out.append(None)
            return ["ok", out]
        if op == "specok":
            SpecifierSet(r["s"])
            return ["ok"]
        if op == "marker":
            m = Marker(r["s"])
            return ["ok", [m.evaluate(e) for e in r["envs"]]]
        if op == "mtok":
            # envs: dicts with "extra" = list of active extras; answers per env: [token-semantics value or None,
            # plain packaging value or None (only when at most one extra is active)]
            m = Marker(r["s"])
            out = []
            for e in r["envs"]:
                extras = list(e.get("extra", []))
                base = {k: v for k, v in e.items() if k != "extra"}
                base["extra"] = extras[0] if len(extras) == 1 else ""
                try:
                    tv = _tok_eval(m._markers, base, extras)
                except Exception:  # noqa: BLE001
                    tv = None
                pv = None
                if len(extras) <= 1:
                    try:
                        pv = m.evaluate(base)
                    except Exception:  # noqa: BLE001
                        pv = None
                out.append([tv, pv])
            return ["ok", out]
        if op == "markerok":
            Marker(r["s"])
            return ["ok"]
        if op == "req":
            q = Requirement(r["s"])
            return ["ok", canonicalize_name(q.name), sorted(q.extras), str(q.specifier), q.url or "", str(q.marker) if q.marker else ""]
        if op == "reqsel":
            # does requirement r select candidate version v in env e ?
            q = Requirement(r["s"])
            out = []
            for v, e in r["cases"]:
                ok = (q.marker is None or q.marker.evaluate(e)) and (v is None or q.specifier.contains(Version(v), prereleases=True))
                out.append(ok)
            return ["ok", out]
        if op == "reqtok":
            # requirement selection with the token/set reading of markers (as C06): cases = [[version|None, env-with-extra-list], …]
            q = Requirement(r["s"])
            out = []
            for v, e in r["cases"]:
                extras = list(e.get("extra", []))
                base = {k: x for k, x in e.items() if k != "extra"}
                base["extra"] = extras[0] if len(extras) == 1 else ""
                try:
                    mk = True if q.marker is None else _tok_eval(q.marker._markers, base, extras)
                    sp = True if v is None else q.specifier.contains(Version(v), prereleases=True)
                    out.append(bool(mk and sp))
                except Exception as ex:  # noqa: BLE001
                    out.append("exc:" + type(ex).__name__)
            return ["ok", canonicalize_name(q.name), sorted(q.extras), out]
        if op == "canon":
            return ["ok", canonicalize_name(r["s"])]
        if op == "wheelname":   # build checks: PEP 427 file name → (canonical name, normal version, build, expanded tags)
            from packaging.utils import InvalidWheelFilename, parse_wheel_filename
            try:
                name, ver, build, tags = parse_wheel_filename(r["s"])
            except InvalidWheelFilename as e:
                return ["invalid", "InvalidWheelFilename", str(e)[:200]]
            return ["ok", name, str(ver), [str(b) for b in build], sorted(str(t) for t in tags)]
        if op == "sdistname":
            from packaging.utils import InvalidSdistFilename, parse_sdist_filename
            try:
                name, ver = parse_sdist_filename(r["s"])
            except InvalidSdistFilename as e:
                return ["invalid", "InvalidSdistFilename", str(e)[:200]]
            return ["ok", name, str(ver)]
        if op == "tags":
            from packaging.tags import parse_tag
            return ["ok", sorted(str(t) for t in parse_tag(r["s"]))]
    except (InvalidVersion, InvalidSpecifier, InvalidMarker, InvalidRequirement) as e:
        return ["invalid", type(e).__name__]
    except Exception as e:  # noqa: BLE001
        return ["exc", type(e).__name__, str(e)[:200]]
    return ["bad-op"]


def main() -> None:
    reqs = json.load(sys.stdin)
    json.dump([handle(r) for r in reqs], sys.stdout)


if __name__ == "__main__":
    main()
