"""Reference side (packaging from /venv's site-packages, *not* poetry's vendored copy).

Run as a subprocess: reads a JSON list of requests on stdin, writes a JSON list of answers.
Must never import poetry.core (that would put the vendored packaging first on sys.path)."""
from __future__ import annotations

import json
import sys

from packaging.markers import InvalidMarker, Marker
from packaging.requirements import InvalidRequirement, Requirement
from packaging.specifiers import InvalidSpecifier, SpecifierSet
from packaging.utils import canonicalize_name
from packaging.version import InvalidVersion, Version


def sign(a, b) -> str:
    return "lt" if a < b else ("gt" if a > b else "eq")


def handle(r: dict) -> object:
    op = r["op"]
    try:
        if op == "vparse":
            v = Version(r["s"])
            return ["ok", str(v)]
        if op == "vcmp":
            a, b = Version(r["a"]), Version(r["b"])
            return ["ok", sign(a, b), hash(a) == hash(b)]
        if op == "spec":
            ss = SpecifierSet(r["s"])
            return ["ok", [ss.contains(Version(v), prereleases=True) for v in r["vs"]]]
        if op == "specv":
            # like "spec", but a probe that is not a version answers null instead of failing the request
            ss = SpecifierSet(r["s"])
            out = []
            for v in r["vs"]:
                try:
                    out.append(ss.contains(Version(v), prereleases=True))
                except InvalidVersion:
                    out.append(None)
            return ["ok", out]
        if op == "specok":
            SpecifierSet(r["s"])
            return ["ok"]
        if op == "marker":
            m = Marker(r["s"])
            return ["ok", [m.evaluate(e) for e in r["envs"]]]
        if op == "markerok":
            Marker(r["s"])
            return ["ok"]
        if op == "req":
            q = Requirement(r["s"])
            return ["ok", canonicalize_name(q.name), sorted(q.extras), str(q.specifier), q.url or "", str(q.marker) if q.marker else ""]
        if op == "reqsel":
            # does requirement r select candidate version v in env e ?
            q = Requirement(r["s"])
            out = []
            for v, e in r["cases"]:
                ok = (q.marker is None or q.marker.evaluate(e)) and (v is None or q.specifier.contains(Version(v), prereleases=True))
                out.append(ok)
            return ["ok", out]
        if op == "canon":
            return ["ok", canonicalize_name(r["s"])]
    except (InvalidVersion, InvalidSpecifier, InvalidMarker, InvalidRequirement) as e:
        return ["invalid", type(e).__name__]
    except Exception as e:  # noqa: BLE001
        return ["exc", type(e).__name__, str(e)[:200]]
    return ["bad-op"]


def main() -> None:
    reqs = json.load(sys.stdin)
    json.dump([handle(r) for r in reqs], sys.stdout)


if __name__ == "__main__":
    main()
