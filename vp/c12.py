"""C12 — containment, overlap and emptiness answers about constraints are never wrong."""
from __future__ import annotations

from typing import Any

from . import core, vc_engine
from . import vc_common as V

PROP = "C12"
LEAN_MODULE = "PoetryVerif.Props.C12"
RULE = ("pairs of constraints with 1-3 '||' groups of 1-3 clauses over every operator (==, !=, <, <=, >, >=, ~=, ^, ~, bare, "
        "==X.*, !=X.*) and versions with pre/post/dev/local segments; probes = every bound, its dev/pre/post/local/next-patch "
        "neighbours and unrelated versions; the property oracle uses the probes that are regular for all bounds of both "
        "operands, the model/implementation comparison uses all probes (regular or not). Non-trivial = both operands parse and "
        "neither is empty/universal; distinct = distinct (a,b) text pair.")
ASSUMPTIONS = [
    "Python list.sort is modelled as a stable insertion sort by `<`; functools.cached_property is transparent",
    "the constraint parser's regex cascade is modelled by a hand tokeniser (tied by the parse stream of this run)",
]
WHICH = "C12"

CORPUS = [("~=2.0.0a1.dev2||>1.0.0, !=1!1.0.*||==1.0.0.post1.dev1+a.1,<=2.0.0", "<3"), ("<1 || >2", "<1,>2"), ("<4", ">=1.2,<2 || >=2.dev0"), (">1.0", "1.0.post1+local"), ("*", "<1,>2"), ("<1,>2", "*"),
          ("!=0 || ==0.*", "1.*"), (">=1.0+local", "1.0"), ("1.0", ">=1.0+local"), ("1.0+local", "1.0"), ("!=1.0+local", "1.0"),
          ("^1.2", "~1.2.3"), ("!=1.2.*", "1.2.3"), ("<2.0.0", ">=2.0.0.dev0"), ("==1.*", "!=1.2.*"), ("~=1.2", "<1.5 || >3"),
          (">=1,<2 || >=3", "<1.5 || >=1.7,<3.5"), ("!=1.0", "!=2.0"), ("!=1.0,!=2.0", "1.0 || 2.0"), ("<1.0 || >1.0", "1.0")]


def gen_pairs(ctx: core.Ctx, n: int) -> list[tuple[str, str]]:
    rnd = ctx.rng
    out = []
    for _ in range(n):
        a = V.gen_constraint(rnd)
        b = V.gen_constraint(rnd) if rnd.random() > 0.06 else rnd.choice(["*", "<1,>2", a])
        out.append((a, b))
    return out


def correspondence(ctx: core.Ctx) -> None:
    vc_engine.run_pairs(ctx, CORPUS, "corpus", WHICH)
    n = ctx.budget(1500, 40000)
    pairs = gen_pairs(ctx, n)
    for k in range(0, len(pairs), 2000):
        vc_engine.run_pairs(ctx, pairs[k:k + 2000], "gen", WHICH)
    many = V.gen_many_range_pairs(ctx.rng, ctx.budget(400, 8000))
    for k in range(0, len(many), 2000):
        vc_engine.run_pairs(ctx, many[k:k + 2000], "many-ranges", WHICH)
    vc_engine.run_pairs(ctx, V.pin_at_end_pairs(), "pin-at-end", WHICH)
    fam = V.gen_family_pairs(ctx.rng, ctx.budget(1200, 30000))
    for k in range(0, len(fam), 2000):
        vc_engine.run_pairs(ctx, fam[k:k + 2000], "release-family", WHICH)
    if ctx.thorough:
        clauses = sorted({V.gen_clause(ctx.rng) for _ in range(3000)})[:150]
        allp = [(a, b) for a in clauses for b in clauses]
        for k in range(0, len(allp), 2500):
            vc_engine.run_pairs(ctx, allp[k:k + 2500], "single-clause-universe", WHICH)


def search(ctx: core.Ctx) -> None:
    seeds = [d["input"] for d in ctx.disagreements if isinstance(d["input"], list) and len(d["input"]) == 2]
    pairs = [(a, b) for a, b in seeds[:300]] + [(b, a) for a, b in seeds[:300]]
    if pairs:
        vc_engine.run_pairs(ctx, pairs, "search-disagreeing", WHICH)
    if not ctx.violations:
        pairs = gen_pairs(ctx, 9000) + V.gen_family_pairs(ctx.rng, 9000)
        for k in range(0, len(pairs), 2000):
            vc_engine.run_pairs(ctx, pairs[k:k + 2000], "search-gen", WHICH)
            if ctx.violations:
                break


def replay(ctx: core.Ctx, payload: dict[str, Any]) -> bool:
    w = payload.get("witness", payload)
    before = len(ctx.violations)
    vc_engine.run_pairs(ctx, [(w["a"], w["b"])] * 3, "replay", WHICH)
    return len(ctx.violations) > before
