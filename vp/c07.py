"""C07 — marker intersection, union and inversion preserve truth in every environment."""
from __future__ import annotations

from typing import Any

from . import core, gen_marker as G, marker_common as MC, marker_engine as E

PROP = "C07"
LEAN_MODULE = "PoetryVerif.Props.C07"
RULE = ("pairs of markers from the C06 domain with up to 5 leaves each (same-variable contradictions/overlaps/adjacent values, "
        "mixed python_version/python_full_version, positive and negative extras); operations intersect, union (both orders) "
        "and invert; every result evaluated on a sample of the grid 13 interpreters x 3 platforms x 5 extras sets that "
        "contains every interpreter (python_version = major.minor of python_full_version). Non-trivial = both operands parse "
        "and neither is universal/empty; distinct = distinct (op, a, b).")
ASSUMPTIONS = [
    "functools caches are cleared before every case (cache transparency is C20's subject); the model is cache-free",
    "real-code calls are limited to 4 s per case (time-outs counted, never a verdict)",
    "lark / re trusted as in C06; RecursionError raised by the interpreter's own stack limit is outside the model",
]


KNOWN_NOTIN = "notin-union-notin-any"


def notin_class(*texts: str) -> bool:
    """two reversed `"x" not in var` items on one variable among the operands / the printed result: the known finding
    (Constraint.union treats two `not in` atoms like two `!=` atoms → Any), test-pinned"""
    import re
    names: list[str] = []
    for t in texts:
        names += re.findall(r"""(?:"[^"]*"|'[^']*')\s*not in\s*([A-Za-z_.]+)""", t or "")
    return any(names.count(n) > 1 for n in names)


def gen_pair(rnd: Any) -> tuple[str, str]:
    k = rnd.random()
    a = G.marker(rnd, max_leaves=rnd.choice([1, 2, 3, 4, 5]))
    if k < 0.35:
        # second operand shares variables with the first: contradictions / overlaps / adjacency
        b = G.marker(rnd, max_leaves=rnd.choice([1, 2, 3]), python_only=rnd.random() < 0.5)
    else:
        b = G.marker(rnd, max_leaves=rnd.choice([1, 2, 3, 4, 5]))
    return a, b


def cases_for(a: str, b: str) -> list[dict[str, Any]]:
    return [{"kind": "binop", "op": "intersect", "a": a, "b": b}, {"kind": "binop", "op": "union", "a": a, "b": b},
            {"kind": "unop", "op": "invert", "a": a}]


def oracle(ctx: core.Ctx, recs: list[dict[str, Any]], envs: list[dict[str, Any]]) -> None:
    for rec in recs:
        case = rec["case"]
        k = case["kind"]
        a = case["a"]
        ta = E.truth_of(a, envs)
        tb = E.truth_of(case["b"], envs) if k == "binop" else None
        if E.TIMEOUT in (ta, tb):
            ctx.count("oracle:operand-timeout")
            ctx.timeouts += 1
            continue
        if ta is None or (k == "binop" and tb is None):
            ctx.case("x:" + str(case), nontrivial=False)
            continue
        nontrivial = rec.get("ok", False)
        ctx.case(f"{k}:{case.get('op')}:{a}\0{case.get('b', '')}", nontrivial=nontrivial,
                 sample={"op": case.get("op"), "a": a, "b": case.get("b"), "result": rec.get("text")} if nontrivial and k == "binop" else None)
        ctx.count(f"{k}:{case.get('op')}:" + ("ok" if rec.get("ok") else rec.get("error", "?")))
        if rec.get("timeout"):
            continue
        wit = {k2: v for k2, v in case.items()}
        if not rec["ok"]:
            ctx.violate(f"raises:{case.get('op')}:{a}|{case.get('b', '')}",
                        f"{case.get('op')}({a!r}, {case.get('b')!r}) raised {rec['error']} {rec.get('exc', '')}", wit)
            continue
        r = rec["result"]
        xa, xb = MC.split_bits(ta), (MC.split_bits(tb) if tb is not None else None)
        xr = MC.split_bits(rec["bits"])
        for j, e in enumerate(envs):
            if xa[j] not in "01" or (xb is not None and xb[j] not in "01"):
                continue
            if k == "binop":
                want = (xa[j] == "1" and xb[j] == "1") if case["op"] == "intersect" else (xa[j] == "1" or xb[j] == "1")
            else:
                want = xa[j] == "0"
            if xr[j] not in "01":
                ctx.violate(f"validate-raises:{case.get('op')}:{a}|{case.get('b', '')}",
                            f"result {rec['text']!r} of {case.get('op')}({a!r}, {case.get('b')!r}) raised {xr[j]} in validate", {**wit, "env": e})
                break
            if (xr[j] == "1") != want:
                ctx.violate(KNOWN_NOTIN if notin_class(a, case.get("b", "")) else f"wrong:{case.get('op')}:{a}|{case.get('b', '')}",
                            f"{case.get('op')}({a!r}, {case.get('b')!r}) = {rec['text']!r} is {xr[j] == '1'} on {brief(e)}, expected {want}",
                            {**wit, "env": e})
                break
        else:
            if r.is_empty() and "1" in xr:
                ctx.violate(f"empty-true:{a}|{case.get('b', '')}", "result reports empty but holds somewhere", wit)
            if r.is_any() and "0" in xr:
                ctx.violate(f"any-false:{a}|{case.get('b', '')}", "result reports universal but fails somewhere", wit)
            # printable and parsed back
            if not (r.is_any() or r.is_empty()):
                t2 = E.truth_of(rec["text"], envs)
                if t2 == E.TIMEOUT:
                    ctx.count("oracle:reparse-timeout")
                    ctx.timeouts += 1
                elif rec["text"].startswith("!") or t2 is None:
                    ctx.violate(f"unprintable:{case.get('op')}:{a}|{case.get('b', '')}",
                                f"result of {case.get('op')}({a!r}, {case.get('b')!r}) prints as {rec['text']!r}, which does not parse back", wit)
                elif [c for c in MC.split_bits(t2)] != xr:
                    ctx.violate(KNOWN_NOTIN if notin_class(rec["text"]) else f"reparse-differs:{case.get('op')}:{a}|{case.get('b', '')}",
                                f"text {rec['text']!r} of the result evaluates differently from the result", wit)


def brief(e: dict[str, Any]) -> str:
    return f"py={e.get('python_full_version')} platform={e.get('sys_platform')} extras={e.get('extra')}"


CORPUS = [('python_version in "2.7"', 'python_full_version not in "3.8"'), ('python_version == "3.8"', 'python_full_version in "3.8"'),
          ('sys_platform not in "a b"', 'sys_platform not in "c d"'), ('python_version >= "3.8"', 'python_version < "3.9"'),
          ('python_version == "3.8"', 'python_version >= "3.9"'), ('python_version >= "3"', 'python_version < "4"'),
          ('python_version >= "3.8" and python_version < "3.10"', 'python_full_version >= "3.9.1"'),
          ('python_full_version > "3.8.0"', 'python_version <= "3.8"'), ('extra == "a"', 'extra != "a"'), ('extra == "a"', 'extra == "b"'),
          ('"64" in platform_machine', 'platform_machine not in "aarch64|AMD64"'), ('"lin" in sys_platform', 'sys_platform in "lin"'),
          ('platform_release != "23.1.0"', '"tegra" not in platform_release'), ('python_version ~= "3.8"', 'python_version != "3.9"'),
          ('sys_platform == "linux" or python_version >= "3.8"', 'sys_platform != "linux" and python_version < "3.8"'),
          ('python_version in "3.8 3.9"', 'python_version not in "3.9 3.10"'), ('os_name == "nt" and extra == "a"', 'os_name == "nt" or extra == "b"'),
          ('python_version >= "3.8" and python_version < "3.9"', 'python_full_version == "3.8.10"'),
          ('(python_version >= "3.8" or os_name == "nt") and (python_version >= "3.8" or extra == "a")', 'python_version < "3.8"')]


def run(ctx: core.Ctx, pairs: list[tuple[str, str]], stream: str, envs: list[dict[str, Any]] | None = None,
        keep_caches: bool = False) -> None:
    envs = envs or G.env_grid(ctx.rng, 24)
    cases: list[dict[str, Any]] = []
    for i, (a, b) in enumerate(pairs):
        cs = cases_for(a, b)
        if keep_caches:     # the calls made before this one in the same process, kept in the witness for the replay
            for c in cs:
                c["history"] = [list(x) for x in pairs[max(0, i - 4):i]]
        cases += cs
    recs = E.run_cases(ctx, cases, stream, envs, keep_caches=keep_caches)
    oracle(ctx, recs, envs)


def correspondence(ctx: core.Ctx) -> None:
    run(ctx, CORPUS, "corpus")
    sv = G.same_variable_pairs(ctx.rng, ctx.budget(450, 10 ** 9))
    for k in range(0, len(sv), 500):
        run(ctx, sv[k:k + 500], "same-variable")
    n = ctx.budget(300, 12000)
    pairs = [gen_pair(ctx.rng) for _ in range(n)]
    for k in range(0, len(pairs), 400):
        run(ctx, pairs[k:k + 400], "gen")
    hist = [(a, b if b is not None else a) for a, b in G.history_items(ctx.rng, ctx.budget(200, 5000))]
    for k in range(0, len(hist), 400):
        run(ctx, hist[k:k + 400], "history", keep_caches=True)


def search(ctx: core.Ctx) -> None:
    seeds = []
    for d in ctx.disagreements:
        i = d["input"]
        c = i.get("case", i) if isinstance(i, dict) else None
        if c and "a" in c:
            seeds.append((c["a"], c.get("b", c["a"])))
    if seeds:
        run(ctx, seeds[:200], "search-disagreeing", envs=G.envs())
    # disagreements met in a call-history stream: repeat each one after the calls that preceded it
    done = 0
    for d in ctx.disagreements:
        i = d["input"]
        c = i.get("case", i) if isinstance(i, dict) else None
        if c and c.get("history") and done < 40 and not ctx.violations:
            done += 1
            hist = [(x[0], x[1]) for x in c["history"]]
            run(ctx, hist + [(c["a"], c.get("b", c["a"]))], "search-history", envs=G.envs(), keep_caches=True)
    if not ctx.violations:
        pairs = [gen_pair(ctx.rng) for _ in range(1500)]
        for k in range(0, len(pairs), 300):
            run(ctx, pairs[k:k + 300], "search-gen")
            if ctx.violations:
                return


def replay(ctx: core.Ctx, payload: dict[str, Any]) -> bool:
    w = payload.get("witness", payload)
    before = len(ctx.violations)
    envs = [w["env"]] if "env" in w else G.envs()
    hist = [(x[0], x[1]) for x in w.get("history", [])]
    run(ctx, hist + [(w["a"], w.get("b", w["a"]))], "replay", envs=envs, keep_caches=bool(hist))
    return len(ctx.violations) > before
