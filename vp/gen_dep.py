"""Seeded generators of dependencies for C10 (reusable by C02/C18/C19): names and extras over the PEP 503/685
alphabet, PEP 440 conjunction constraints, markers from the C06 domain (gen_marker) with `extra` clauses and python
ranges, http(s) archive URLs, git URLs (https / http / ssh / git / file / scp-like; user, port, revision,
sub-directory), PEP 508 texts in varying insignificant spelling, constructor descriptions, and a malformed stream."""
from __future__ import annotations

import random
import re
from typing import Any

from . import gen_marker as G

ALNUM = "abcdefghijklmnopqrstuvwxyzABCDEFGHIJKLMNOPQRSTUVWXYZ0123456789"
WORDS = ["foo", "bar", "requests", "zope", "interface", "Django", "py", "x", "a1", "B2", "lib", "core", "Pillow", "ruamel",
         "yaml", "typing", "extensions", "7zip", "q", "Flask", "SQLAlchemy", "pkg", "tar", "zip", "whl", "git"]
SEPS = ["-", "_", ".", "-", "_", ".", "--", "_.", "-_-"]
ARCHIVE_SUFFIXES = [".zip", ".whl", ".tar.gz", ".tgz", ".tar", ".tar.bz2", ".tbz", ".tar.xz", ".txz", ".tlz", ".tar.lz", ".tar.lzma"]


def canon(name: str) -> str:
    return re.sub(r"[-_.]+", "-", name).lower()


def looks_like_archive(name: str) -> bool:
    low = name.lower()
    return any(low.endswith(s) and len(low) > len(s) for s in ARCHIVE_SUFFIXES)


def name(rnd: random.Random, archive_ok: bool = False) -> str:
    """a PEP 508 name: starts and ends alphanumeric, runs of `-_.` inside, mixed case"""
    for _ in range(20):
        n = rnd.choice([1, 1, 2, 2, 3])
        s = rnd.choice(WORDS)
        for _ in range(n - 1):
            s += rnd.choice(SEPS) + rnd.choice(WORDS)
        if rnd.random() < 0.1:
            s = "".join(rnd.choice(ALNUM) for _ in range(rnd.randint(1, 3))) + s
        if archive_ok or not looks_like_archive(s) or rnd.random() < 0.3:
            return s        # names ending like an archive are ordinary names (regression of poetry-core f169cc2)
    return "foo"


def extras(rnd: random.Random) -> list[str]:
    k = rnd.choice([0, 0, 0, 1, 1, 2, 3])
    return [name(rnd, archive_ok=True) for _ in range(k)]


def respell(rnd: random.Random, n: str) -> str:
    """another spelling with the same normal form: case flips, other separators"""
    out = []
    i = 0
    while i < len(n):
        c = n[i]
        if c in "-_.":
            j = i
            while j < len(n) and n[j] in "-_.":
                j += 1
            out.append(rnd.choice(["-", "_", ".", "--", "._", "-.-"]))
            i = j
            continue
        out.append(c.upper() if rnd.random() < 0.3 else (c.lower() if rnd.random() < 0.3 else c))
        i += 1
    return "".join(out)


# ---------------------------------------------------------------- constraints
REL = ["1", "1.0", "1.2", "2", "2.0.0", "1.2.3", "0", "0.1", "3", "1.0.0", "0.0.1", "1.2.0", "2.0", "1!1.0", "10.4", "2024.1"]
SUF = ["", "", "", "", "", "a1", "rc2", ".post1", ".dev0", "b0"]
PEP_OPS = ["==", "!=", "<", "<=", ">", ">=", "~=", "==*", "!=*", ">=", "<", ">=", "<"]
POETRY_OPS = ["^", "~", ""]


def clause(rnd: random.Random, poetry_ops: bool = False) -> str:
    op = rnd.choice(PEP_OPS + (POETRY_OPS * 2 if poetry_ops else []))
    if op in ("==*", "!=*"):
        return op[:2] + rnd.choice(REL) + ".*"
    v = rnd.choice(REL) + rnd.choice(SUF)
    if op in ("==", "!=") and rnd.random() < 0.15:
        v += rnd.choice(["+local", "+1"])
    if op == "~=" and "." not in re.split(r"[a-z!]", v.split("!")[-1])[0].rstrip("."):
        v = rnd.choice(["1.0", "1.2", "1.2.3", "2.0.0"]) + rnd.choice(SUF)
    return op + v


def constraint(rnd: random.Random, poetry_ops: bool = False) -> str:
    """a conjunction of 0-3 clauses ('' = no constraint)"""
    k = rnd.choice([0, 1, 1, 1, 2, 2, 3])
    return ",".join(clause(rnd, poetry_ops) for _ in range(k))


# ---------------------------------------------------------------- markers
def marker(rnd: random.Random) -> str:
    """'' or a marker text of the C06 domain (1-4 leaves)"""
    if rnd.random() < 0.45:
        return ""
    return G.marker(rnd, max_leaves=rnd.choice([1, 1, 2, 2, 3, 4]), max_depth=2)


PY_RANGES = [">=3.8", ">=3.8,<4.0", "^3.9", "~3.10", ">=3.7,<3.11", ">3.6", "<=3.11", ">=3.8.1", "!=3.9.*,>=3.8", "3.10.*",
             ">=2.7,<3.0 || >=3.8", "==3.11.*", ">=3.9,<3.10 || >=3.11,<3.13"]


# ---------------------------------------------------------------- URLs
HOSTS = ["example.com", "github.com", "files.pythonhosted.org", "h", "git.example.org", "my-host.internal", "10.0.0.1", "a_b.c"]
USERS = ["git", "user", "u-1", "x.y", "build_bot"]
SEGS = ["org", "repo", "a", "my-project", "Some.Repo", "x_y", "~user", "v2", "group", "sub.group", "123", "r"]
REVS = ["main", "v1.0", "1.2.3", "feature/x", "abc1234", "0123456789abcdef0123456789abcdef01234567", "release-2.0", "dev_branch", "HEAD", "a"]
SUBDIRS = ["sub", "pkg/core", "a_b", "src/my-pkg", "x/y/z", "p", "my.pkg", "src/lib.core", ".tools/pkg", ".hidden", "a/.b/c"]   # with dots: regression of 99e1c95
DOT_SUBDIRS = ["my.pkg", "src/lib.core", "v1.2/pkg"]


def archive_url(rnd: random.Random, pkg: str, wheel_consistent: bool = True) -> tuple[str, str | None]:
    """(url, version when it is a wheel)"""
    scheme = rnd.choice(["https", "https", "http"])
    host = rnd.choice(HOSTS) + (":" + rnd.choice(["8080", "443"]) if rnd.random() < 0.15 else "")
    path = "/".join(rnd.choice(SEGS) for _ in range(rnd.randint(0, 3)))
    ver = rnd.choice(["1.0", "2.0.1", "0.1", "1.2.3", "2024.1", "1.0a1", "1.0.post1"])
    base = re.sub(r"[-_.]+", "_", pkg)
    kind = rnd.random()
    wheel_ver = None
    if kind < 0.4:
        fname = f"{base}-{ver}-" + rnd.choice(["py3-none-any", "py2.py3-none-any", "cp311-cp311-manylinux_2_17_x86_64", "1-py3-none-any"]) + ".whl"
        wheel_ver = ver
    elif kind < 0.75:
        fname = f"{base}-{ver}" + rnd.choice([".tar.gz", ".zip", ".tar.bz2", ".tgz"])
    else:
        fname = rnd.choice(["archive", "download", "main.zip", "v1.tar.gz", "pkg"])
    url = f"{scheme}://{host}/" + (path + "/" if path else "") + fname
    if rnd.random() < 0.12:
        url += "?" + rnd.choice(["raw=true", "a=b&c=d", "token=abc"])
    return url, wheel_ver


def git_url(rnd: random.Random, form: str | None = None) -> dict[str, Any]:
    """a git repository location: {'form','url' (without git+), 'canonical' expected nothing}"""
    form = form or rnd.choice(["https", "https", "http", "ssh", "ssh", "ssh-colon", "git", "file", "file-host", "scp", "scp"])
    user = rnd.choice(USERS) if rnd.random() < 0.5 else None
    host = rnd.choice(HOSTS)
    port = rnd.choice(["22", "8080", "2222"]) if rnd.random() < 0.2 else None
    nseg = rnd.randint(1, 3)
    segs = [rnd.choice(SEGS) for _ in range(nseg)]
    if rnd.random() < 0.6:
        segs[-1] += ".git"
    path = "/".join(segs)
    if rnd.random() < 0.05:
        path += "/"
    auth = (user + "@" if user else "") + host + (":" + port if port else "")
    if form in ("https", "http", "git"):
        url = f"{form}://{auth}/{path}"
    elif form == "ssh":
        url = f"ssh://{auth}/{path}"
    elif form == "ssh-colon":
        if segs[0].isdigit():
            segs[0] = "o" + segs[0]
            path = "/".join(segs)
        url = f"ssh://{(user + '@' if user else '') + host}:{path}"
    elif form == "file":
        url = f"file:///{path}"
    elif form == "file-host":
        url = f"file://localhost/{path}"
    else:  # scp-like
        if nseg < 2:
            segs = ["org"] + segs
        if segs[0].isdigit():
            segs[0] = "o" + segs[0]
        path = "/".join(segs)
        url = f"{(user + '@' if user else '')}{host}:{path}"
    return {"form": form, "url": url}


# ---------------------------------------------------------------- dependency descriptions
def dep_desc(rnd: random.Random) -> dict[str, Any]:
    """a dependency as constructor arguments (kind registry | url | vcs)"""
    k = rnd.random()
    d: dict[str, Any] = {"name": name(rnd), "extras": extras(rnd), "marker": marker(rnd), "python": None, "py_first": rnd.random() < 0.5}
    if rnd.random() < 0.2:
        d["python"] = rnd.choice(PY_RANGES)
    # membership in extras the way Factory records it (`dependency._in_extras = [...]`), for markers without `extra`
    d["in_extras"] = rnd.sample(["a", "b", "foo-bar", "c"], rnd.choice([1, 1, 2])) if not G.mentions_extra(d["marker"]) and rnd.random() < 0.25 else []
    if k < 0.45:
        d["kind"] = "registry"
        d["constraint"] = constraint(rnd, poetry_ops=True) or "*"
        d["text_constraint"] = constraint(rnd)
    elif k < 0.7:
        d["kind"] = "url"
        d["url"], d["wheel_version"] = archive_url(rnd, d["name"])
        d["directory"] = rnd.choice(SUBDIRS) if rnd.random() < 0.25 else None
    else:
        d["kind"] = "vcs"
        g = git_url(rnd)
        d["source"] = g["url"]
        d["form"] = g["form"]
        which = rnd.choice(["branch", "tag", "rev", None, None])
        d["branch"] = d["tag"] = d["rev"] = None
        if which:
            d[which] = rnd.choice(REVS)
        d["directory"] = rnd.choice(SUBDIRS) if rnd.random() < 0.35 else None
    return d


def ref_siblings(ref: str) -> list[str]:
    """references that poetry's own source comparison relates to `ref` (one a prefix of the other) or nearly so"""
    out = [ref + ".1", ref + "/1.x", ref + "0", ref[:-1] if len(ref) > 1 else ref + "b", ref.upper() if ref.upper() != ref else ref.lower()]
    if len(ref) >= 12:
        out.append(ref[:7])
    return [r for r in out if r and r != ref]


def siblings(rnd: random.Random, d: dict[str, Any], n: int = 4) -> list[dict[str, Any]]:
    """descriptions that differ from `d` in ONE field only, chosen among the fields poetry's `==`/`hash` of a dependency
    or of its parts ignores or relates loosely (reference prefixes, marker, extras, membership in extras, python range,
    subdirectory, equal-but-differently-written versions): rendered one after the other in one process they expose any
    state kept between calls (a memo keyed too coarsely, a shared mutable default)."""
    out: list[dict[str, Any]] = []
    for _ in range(n):
        v = dict(d)
        k = rnd.random()
        if d["kind"] == "vcs" and k < 0.45:
            which = next((w for w in ("branch", "tag", "rev") if d.get(w)), None)
            if which is None:
                v[rnd.choice(["branch", "tag", "rev"])] = rnd.choice(REVS)
            elif rnd.random() < 0.75:
                v[which] = rnd.choice(ref_siblings(d[which]))
            else:
                v[which] = None
                v[rnd.choice([w for w in ("branch", "tag", "rev") if w != which])] = d[which]
        elif d["kind"] in ("vcs", "url") and k < 0.6:
            v["directory"] = rnd.choice([x for x in SUBDIRS + [None] if x != d.get("directory")])
        elif d["kind"] == "registry" and k < 0.45:
            c = d["constraint"]
            c2 = re.sub(r"(\d+\.\d+)(?![\d.*])", r"\1.0", c, count=1)
            v["constraint"] = c2 if c2 != c and rnd.random() < 0.5 else (constraint(rnd, poetry_ops=True) or "*")
            v["text_constraint"] = constraint(rnd) if rnd.random() < 0.5 else d.get("text_constraint", "")
        elif k < 0.75:
            v["marker"] = marker(rnd)
            v["in_extras"] = [] if G.mentions_extra(v["marker"]) else d["in_extras"]
        elif k < 0.85:
            v["extras"] = extras(rnd)
        elif k < 0.93:
            v["python"] = rnd.choice(PY_RANGES + [None])
        else:
            v["in_extras"] = rnd.sample(["a", "b", "foo-bar", "c"], rnd.choice([1, 2])) if not G.mentions_extra(d["marker"]) else []
        out.append(v)
    return out


def ws(rnd: random.Random) -> str:
    return rnd.choice(["", "", " ", " ", "  ", "\t", " \t"])


def dep_text(rnd: random.Random, d: dict[str, Any], plain: bool = False) -> str:
    """a PEP 508 text for the description (python range and branch/tag are constructor-only and ignored);
    `plain`: single blanks, as pip would write it"""
    w = (lambda: " ") if plain else (lambda: ws(rnd))
    s = d["name"]
    if d["extras"]:
        s += w() + "[" + w() + (w() + "," + w()).join(d["extras"]) + w() + "]"
    if d["kind"] == "registry":
        c = d.get("text_constraint", "")
        if c:
            parts = []
            for p in c.split(","):
                op = re.match(r"~=|==|!=|<=|>=|<|>", p).group(0)  # type: ignore[union-attr]
                parts.append(op + ("" if plain else rnd.choice(["", "", " "])) + p[len(op):])
            body = (w() + "," + w()).join(parts)
            s += w() + ("(" + w() + body + w() + ")" if rnd.random() < 0.35 else body)
    elif d["kind"] == "url":
        s += w() + "@" + (w() or " ") + d["url"] + ("#subdirectory=" + d["directory"] if d.get("directory") else "")
    else:
        ref = d.get("rev") or d.get("branch") or d.get("tag")
        src = d["source"]
        if d.get("form") == "scp":
            src = "ssh://" + src     # PEP 508 text needs a scheme; the colon form is kept
        s += w() + "@" + (w() or " ") + "git+" + src + ("@" + ref if ref else "") + ("#subdirectory=" + d["directory"] if d.get("directory") else "")
    if d["marker"]:
        s += (" " if d["kind"] != "registry" else w()) + ";" + w() + d["marker"]
    return s + ("" if plain else w())


def variant(rnd: random.Random, d: dict[str, Any]) -> dict[str, Any]:
    """the same dependency in another PEP 508-insignificant spelling: name/extra case and separators, quote style"""
    v = dict(d)
    v["name"] = respell(rnd, d["name"])
    v["extras"] = [respell(rnd, e) for e in d["extras"]]
    if d["marker"]:
        v["marker"] = requote(rnd, d["marker"])
    if d.get("kind") == "url" and d.get("wheel_version") is None:
        pass
    return v


def requote(rnd: random.Random, m: str) -> str:
    def sub(mo: re.Match[str]) -> str:
        inner = mo.group(0)[1:-1]
        if "'" in inner or '"' in inner:
            return mo.group(0)
        return f"'{inner}'" if rnd.random() < 0.5 else f'"{inner}"'
    return re.sub(r"""("[^"]*"|'[^']*')""", sub, m)


MUT = [" ", "[", "]", "(", ")", ",", ";", "@", ">=", "==", "~=", "#", " #", "git+", "://", ":", "/", ".git", "#subdirectory=", "&", "egg=", "'", '"', "and", "x", "1.0", "\t", ".whl", ".zip"]


def mutate(rnd: random.Random, s: str) -> str:
    if not s:
        return rnd.choice(MUT)
    k = rnd.random()
    i = rnd.randrange(len(s) + 1)
    if k < 0.4:
        return s[:i] + rnd.choice(MUT) + s[i:]
    if k < 0.65:
        j = min(len(s), i + rnd.randint(1, 5))
        return s[:i] + s[j:]
    if k < 0.8:
        return s[:i]
    return s + rnd.choice(MUT)


def git_url_texts(rnd: random.Random, n: int) -> list[str]:
    """inputs of ParsedUrl.parse: in-grammar URLs with/without git+, revision, sub-directory; near-grammar mutants"""
    out = []
    for _ in range(n):
        g = git_url(rnd)
        u = g["url"]
        if g["form"] != "scp" and rnd.random() < 0.6:
            u = "git+" + u
        if rnd.random() < 0.5:
            u += "@" + rnd.choice(REVS)
        if rnd.random() < 0.35:
            u += "#subdirectory=" + rnd.choice(SUBDIRS + (DOT_SUBDIRS if rnd.random() < 0.2 else []))
        if rnd.random() < 0.12:
            u = mutate(rnd, u)
        out.append(u)
    return out
