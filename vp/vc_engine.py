"""Engine shared by C05 / C12 / C15 (and used by C04 for parsing): runs a batch of constraint
pairs through the real code and the Lean model, compares everything structurally, and evaluates
the requested property oracle on the real code."""
from __future__ import annotations

from typing import Any

from . import core
from . import vc_common as V

OPS = ("intersect", "union", "difference")
SPEC = {"intersect": lambda x, y: x and y, "union": lambda x, y: x or y, "difference": lambda x, y: x and not y}


def tname(c: Any) -> str:
    return {'EmptyConstraint': 'Empty', 'Version': 'Version', 'VersionRange': 'Range', 'VersionUnion': 'Union'}.get(type(c).__name__, type(c).__name__)


def impl_parse(s: str) -> Any:
    from poetry.core.constraints.version import parse_constraint
    try:
        return parse_constraint(s)
    except ValueError:
        return None
    except Exception as e:  # noqa: BLE001
        return e


def run_pairs(ctx: core.Ctx, pairs: list[tuple[str, str]], stream: str, which: str) -> None:
    """pairs of constraint strings. `which` selects the oracle: C05 | C12 | C15."""
    rnd = ctx.rng
    lines: list[str] = []
    meta: list[dict[str, Any]] = []
    for sa, sb in pairs:
        a, b = impl_parse(sa), impl_parse(sb)
        if a is None or b is None or isinstance(a, Exception) or isinstance(b, Exception):
            # parse failures are C19's subject; still compared with the model below
            lines.append(core.line("cparse", sa))
            lines.append(core.line("cparse", sb))
            meta.append({"kind": "parsefail", "sa": sa, "sb": sb, "a": a, "b": b})
            continue
        bs = V.bounds(a) + V.bounds(b)
        ptexts = V.probe_strings(rnd, [x.text for x in bs])
        probes = [V.parse_probe(p) for p in ptexts]
        m = {"kind": "pair", "sa": sa, "sb": sb, "a": a, "b": b, "ptexts": ptexts, "probes": probes, "bs": bs, "n": 0}
        lines.append(core.line("cparse", sa, *ptexts))
        lines.append(core.line("cparse", sb, *ptexts))
        for op in OPS:
            lines.append(core.line("cop", op, sa, sb, *ptexts))
        lines.append(core.line("cpred", sa, sb))
        lines.append(core.line("cpred", sa, sa))
        meta.append(m)
    out = core.run_driver(lines)
    k = 0
    dis = 0
    for m in meta:
        if m["kind"] == "parsefail":
            for s, obj in ((m["sa"], m["a"]), (m["sb"], m["b"])):
                mo = out[k]
                k += 1
                io = "err" if obj is None else ("exc" if isinstance(obj, Exception) else "ok")
                if (io == "ok") != (mo[0] == "ok") or (io == "exc"):
                    dis += 1
                    ctx.disagree(stream + ":parse", s, io if io != "exc" else repr(obj), mo)
            ctx.case("pf:" + m["sa"] + "\0" + m["sb"], nontrivial=False)
            ctx.count("pair:parsefail")
            continue
        a, b, probes = m["a"], m["b"], m["probes"]
        sa, sb = m["sa"], m["sb"]
        nontrivial = not (a.is_any() or b.is_any() or a.is_empty() or b.is_empty())
        ctx.case("pair:" + sa + "\0" + sb, nontrivial=nontrivial,
                 sample={"a": sa, "b": sb, "probes": m["ptexts"][:6]} if nontrivial else None)
        ctx.count("pair:" + tname(a) + "x" + tname(b))
        # --- parse reports
        for s, obj in ((sa, a), (sb, b)):
            mo = out[k]
            k += 1
            io = ["ok", *V.report(obj, probes)]
            if io != mo:
                dis += 1
                ctx.disagree(stream + ":parse", s, io, mo)
        regular = [i for i, p in enumerate(probes) if p is not None and V.is_regular(p, m["bs"])]
        va = V.bits(a, probes)
        vb = V.bits(b, probes)
        results: dict[str, Any] = {}
        for op in OPS:
            mo = out[k]
            k += 1
            try:
                r = getattr(a, op)(b)
            except Exception as e:  # noqa: BLE001
                io = ["err", V.errname(e)]
                results[op] = e
                if io != mo:
                    dis += 1
                    ctx.disagree(stream + ":" + op, [sa, sb], io, mo)
                if which == "C05":
                    ctx.violate(f"{op}-raises:{sa}|{sb}", f"({sa}).{op}({sb}) raised {type(e).__name__}: {e}",
                                {"op": op, "a": sa, "b": sb})
                continue
            results[op] = r
            io = ["ok", *V.report(r, probes)]
            ctx.count(f"{op}:" + tname(r))
            if io != mo:
                dis += 1
                ctx.disagree(stream + ":" + op, [sa, sb], io, mo)
            if which == "C05":
                vr = io[5]
                for i in regular:
                    want = SPEC[op](va[i] == "1", vb[i] == "1")
                    if vr[i] not in "01" or va[i] not in "01" or vb[i] not in "01":
                        ctx.violate(f"{op}-allows-raises:{sa}|{sb}", f"allows() raised for ({sa}).{op}({sb}) at {m['ptexts'][i]}",
                                    {"op": op, "a": sa, "b": sb, "v": m["ptexts"][i]})
                        break
                    if (vr[i] == "1") != want:
                        if nonseparated(a) or nonseparated(b):
                            ctx.violate(KNOWN_NONSEP, f"({sa}).{op}({sb}) = {io[1]} is wrong at {m['ptexts'][i]}; an operand is a VersionUnion whose members overlap: {a} / {b}",
                                        {"op": op, "a": sa, "b": sb, "v": m["ptexts"][i]})
                            break
                        if local_min_finding(a, b, r, probes[i]):
                            ctx.violate("local-min-intersect", f"({sa}).{op}({sb}) = {io[1]} admits {m['ptexts'][i]} (known class: Version ∩ range whose lower bound is a local build of it)",
                                        {"op": op, "a": sa, "b": sb, "v": m["ptexts"][i]})
                            break
                        ctx.violate(f"{op}-wrong:{sa}|{sb}",
                                    f"({sa}).{op}({sb}) = {io[1]} admits {m['ptexts'][i]}: {vr[i] == '1'}, expected {want}",
                                    {"op": op, "a": sa, "b": sb, "v": m["ptexts"][i]})
                        break
            if which == "C15" and not r.is_empty():
                check_roundtrip(ctx, r, f"({sa}).{op}({sb})", {"op": op, "a": sa, "b": sb})
        # --- predicates
        for (x, sx, y, sy) in ((a, sa, b, sb), (a, sa, a, sa)):
            mo = out[k]
            k += 1
            aa = V.safe(lambda: x.allows_all(y))
            an = V.safe(lambda: x.allows_any(y))
            io = ["ok", aa, an]
            if io != mo:
                dis += 1
                ctx.disagree(stream + ":pred", [sx, sy], io, mo)
            if which == "C12":
                wit = {"op": "pred", "a": sx, "b": sy}
                if aa.startswith("!") or an.startswith("!"):
                    ctx.violate(f"pred-raises:{sx}|{sy}", f"allows_all/allows_any raised for {sx} / {sy}: {aa} {an}", wit)
                    continue
                px = V.bits(x, probes)
                py = V.bits(y, probes)
                nonsep = nonseparated(x) or nonseparated(y)
                for i in regular:
                    if aa == "1" and py[i] == "1" and px[i] == "0":
                        ctx.violate(KNOWN_NONSEP if nonsep else f"allows_all-wrong:{sx}|{sy}", f"({sx}).allows_all({sy}) is True but {m['ptexts'][i]} is admitted by the second only", {**wit, "v": m["ptexts"][i]})
                        break
                    if an == "0" and py[i] == "1" and px[i] == "1":
                        ctx.violate(KNOWN_NONSEP if nonsep else f"allows_any-wrong:{sx}|{sy}", f"({sx}).allows_any({sy}) is False but both admit {m['ptexts'][i]}", {**wit, "v": m["ptexts"][i]})
                        break
                if x is a and y is b:
                    inter = results.get("intersect")
                    if inter is not None and not isinstance(inter, Exception) and (an == "1") != (not inter.is_empty()):
                        ctx.violate(KNOWN_NONSEP if nonsep else f"any-vs-intersect:{sx}|{sy}", f"({sx}).allows_any({sy}) = {an} but intersection = {inter}", wit)
                else:
                    if aa != "1":
                        ctx.violate(f"self-allows_all:{sx}", f"({sx}).allows_all(itself) is False", wit)
                    if not x.is_empty() and an != "1":
                        ctx.violate(f"self-allows_any:{sx}", f"({sx}).allows_any(itself) is False", wit)
        if which == "C12":
            for obj, s in ((a, sa), (b, sb)) + tuple((r, f"({sa}).{op}({sb})") for op, r in results.items() if not isinstance(r, Exception)):
                vb_ = V.bits(obj, probes)
                if obj.is_empty() and "1" in vb_:
                    ctx.violate(f"empty-admits:{s}", f"{s} reports empty but admits a probe", {"op": "flags", "a": sa, "b": sb})
                if obj.is_any() and any(vb_[i] == "0" for i in range(len(probes)) if probes[i] is not None):
                    ctx.violate(f"any-rejects:{s}", f"{s} reports universal but rejects a probe", {"op": "flags", "a": sa, "b": sb})
        if which == "C15":
            for obj, s in ((a, sa), (b, sb)):
                if not obj.is_empty():
                    check_roundtrip(ctx, obj, s, {"op": "parse", "a": s, "b": s})
    ctx.stream(stream, len(pairs), dis)


KNOWN_NONSEP = "union-of-leaves-overlapping-members"


def nonseparated(c: Any) -> bool:
    """Known finding: `VersionUnion.of` compares each sorted member only with the LAST merged one; when a Version member sits in
    the PEP 440 gap of an earlier range's exclusive lower bound (`>1.0.0 || 1.0.0.post1`), it is not merged into that range, and a later
    member that the earlier range contains is then kept as well: the union's members overlap, and the merge walks (which assume
    sorted, disjoint members) give wrong answers.  Recognised on the operand itself: two members r1 before r2 with r1.max > r2.min."""
    from poetry.core.constraints.version import VersionUnion
    if not isinstance(c, VersionUnion):
        return False
    rs = list(c.ranges)
    for i in range(len(rs)):
        for j in range(i + 1, len(rs)):
            mx, mn = rs[i].max, rs[j].min
            if mn is None or mx is None or mx > mn:
                return True
    return False


def local_min_finding(a: Any, b: Any, result: Any, p: Any) -> bool:
    """Known finding K1 (DESIGN §6): `VersionRange.intersect(Version)` answers `[min, v.next_patch)` when
    `min` is a local build of `v`; that interval also contains versions `v` itself rejects.
    Recognised by the call site: some Version x and some range r among the operands (or the result)
    with r.min local, x admitting r.min but r rejecting x, and the failing probe inside
    (r.min, x.stable.next_patch) while x rejects it."""
    from poetry.core.constraints.version import Version
    items = a.flatten() + b.flatten() + result.flatten()
    xs = [x for x in items if isinstance(x, Version)]
    rs = [r for r in items if not isinstance(r, Version) and r.min is not None and r.min.is_local()]
    for x in xs:
        for r in rs:
            try:
                if x.allows(r.min) and not r.allows(x) and r.min < p < x.stable.next_patch() and not x.allows(p):
                    return True
            except Exception:  # noqa: BLE001
                continue
    return False


def check_roundtrip(ctx: core.Ctx, c: Any, desc: str, wit: dict[str, Any]) -> None:
    """C15: str(c) parses back to a constraint admitting the same regular probes."""
    from poetry.core.constraints.version import parse_constraint
    try:
        s = str(c)
    except Exception as e:  # noqa: BLE001
        ctx.violate(f"str-raises:{desc}", f"str({desc}) raised {type(e).__name__}", wit)
        return
    try:
        c2 = parse_constraint(s)
    except Exception as e:  # noqa: BLE001
        if any(x.text.endswith(("-", "_", ".")) for x in V.bounds(c)):
            # known finding: a bound keeps its raw spelling; a spelling ending in a separator (`1.0post-`, valid for VERSION_PATTERN:
            # implicit post number) defeats the and-separator's look-behind when the constraint text is read back
            ctx.violate("version-text-trailing-separator", f"text {s!r} of {desc} does not parse back: a bound's raw text ends in a separator", wit)
            return
        ctx.violate(f"reparse-fails:{desc}", f"text {s!r} of {desc} does not parse back: {type(e).__name__}", wit)
        return
    bs = V.bounds(c) + V.bounds(c2)
    ptexts = V.probe_strings(ctx.rng, [x.text for x in bs], n_extra=8)
    for t in ptexts:
        p = V.parse_probe(t)
        if p is None or not V.is_regular(p, bs):
            continue
        try:
            x, y = c.allows(p), c2.allows(p)
        except Exception as e:  # noqa: BLE001
            ctx.violate(f"rt-allows-raises:{desc}", f"allows raised {type(e).__name__} on {desc}", wit)
            return
        if x != y:
            ctx.violate(f"roundtrip-wrong:{desc}", f"{desc} prints as {s!r} which re-parses to {c2}; they differ at {t}", {**wit, "v": t})
            return
