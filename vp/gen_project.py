"""Seeded generator of buildable pure-Python project trees (shared by the build checks C01, C08, C09, C14, C02).

`generate(rng)` returns a `Project`: the pyproject text, every file with bytes and permission class, the
config settings for the build hooks and a `meta` dict saying what was generated (layout, packages, includes,
excludes, scripts, entry points, extras ...).  A project is a *description*; `Project.write(root, order=…)`
materialises it anywhere, in any creation order, so that the same content can be rebuilt at a different path.
Nothing here knows about a particular property.

Deliberately not generated (recorded findings, see the C01 report): two file scripts with the same base name,
a package `to = "../x"` target, `local-version` labels containing `-`/`_` (D11).
"""
from __future__ import annotations

import base64
import os
import random
from dataclasses import dataclass, field
from pathlib import Path
from typing import Any

BUILD_SYSTEM = '[build-system]\nrequires = ["poetry-core"]\nbuild-backend = "poetry.core.masonry.api"\n'


@dataclass
class FileSpec:
    path: str            # posix, relative to the project root
    data: bytes
    mode: int = 0o644    # 0o644 (non-executable class) or 0o755 (executable class)

    @property
    def executable(self) -> bool:
        return bool(self.mode & 0o100)


@dataclass
class Project:
    name: str
    version: str
    style: str                       # "project" | "poetry"
    pyproject: str
    files: list[FileSpec]            # everything except pyproject.toml
    config_settings: dict[str, str] | None = None
    features: list[str] = field(default_factory=list)
    meta: dict[str, Any] = field(default_factory=dict)

    # ---- materialise ----------------------------------------------------------------
    def all_files(self) -> list[FileSpec]:
        return [FileSpec("pyproject.toml", self.pyproject.encode("utf-8"), 0o644), *self.files]

    def write(self, root: str | os.PathLike[str], order: list[int] | None = None,
              mtimes: dict[str, float] | None = None) -> Path:
        """Create the tree under `root` (must exist, empty). `order` permutes the creation order of files."""
        rootp = Path(root)
        fs = self.all_files()
        idx = list(range(len(fs))) if order is None else list(order)
        assert sorted(idx) == list(range(len(fs)))
        for i in idx:
            f = fs[i]
            p = rootp / f.path
            p.parent.mkdir(parents=True, exist_ok=True)
            p.write_bytes(f.data)
            os.chmod(p, f.mode)
            if mtimes and f.path in mtimes:
                os.utime(p, (mtimes[f.path], mtimes[f.path]))
        for link, target in (self.meta.get("symlinks") or {}).items():     # link path (relative to the root) -> target text
            lp = rootp / link
            lp.parent.mkdir(parents=True, exist_ok=True)
            os.symlink(target, lp)
        return rootp

    # ---- (de)serialise for replay files --------------------------------------------
    def to_json(self) -> dict[str, Any]:
        return {
            "name": self.name, "version": self.version, "style": self.style, "pyproject": self.pyproject,
            "files": [[f.path, base64.b64encode(f.data).decode("ascii"), f.mode] for f in self.files],
            "config_settings": self.config_settings, "features": self.features, "meta": self.meta,
        }

    @staticmethod
    def from_json(d: dict[str, Any]) -> "Project":
        return Project(d["name"], d["version"], d["style"], d["pyproject"],
                       [FileSpec(p, base64.b64decode(b), m) for p, b, m in d["files"]],
                       d.get("config_settings"), list(d.get("features", [])), dict(d.get("meta", {})))

    def signature(self) -> str:
        return "|".join(sorted(self.features)) + "|" + self.name + "|" + self.version


# --------------------------------------------------------------------------------------
# small TOML writer (only what is needed)
# --------------------------------------------------------------------------------------

def tstr(s: str) -> str:
    out = ['"']
    for ch in s:
        if ch == '"':
            out.append('\\"')
        elif ch == "\\":
            out.append("\\\\")
        elif ch == "\n":
            out.append("\\n")
        elif ch == "\t":
            out.append("\\t")
        elif ord(ch) < 32 or ord(ch) == 127:
            out.append("\\u%04x" % ord(ch))
        else:
            out.append(ch)
    out.append('"')
    return "".join(out)


def tval(v: Any) -> str:
    if isinstance(v, bool):
        return "true" if v else "false"
    if isinstance(v, str):
        return tstr(v)
    if isinstance(v, int):
        return str(v)
    if isinstance(v, (list, tuple)):
        return "[" + ", ".join(tval(x) for x in v) + "]"
    if isinstance(v, dict):
        return "{ " + ", ".join(f"{tkey(k)} = {tval(x)}" for k, x in v.items()) + " }"
    raise TypeError(type(v))


def tkey(k: str) -> str:
    if k and all(c.isalnum() and ord(c) < 128 or c in "-_" for c in k):
        return k
    return tstr(k)


def ttable(header: str, d: dict[str, Any]) -> str:
    lines = [f"[{header}]"]
    for k, v in d.items():
        lines.append(f"{tkey(k)} = {tval(v)}")
    return "\n".join(lines) + "\n"


# --------------------------------------------------------------------------------------
# vocabularies
# --------------------------------------------------------------------------------------

NAMES = ["mypkg", "my-package", "My.Package_name", "A.b--c", "pkg2", "Foo_Bar", "x", "zope.interface", "Django-Thing",
         "a1-b2.c3", "UPPER", "snake_case_name", "dotted.name.here", "multi---dash", "p_q-r.s", "lib9"]
RELEASES = ["0.1.0", "1.2.3", "1.0", "2", "0.0.1", "2024.10.1", "1.2.3.4", "10.20", "1.02.003", "01.0", "1.0.0"]
PRES = ["", "", "", "a1", "b2", "rc3", "alpha4", "RC1", ".beta.5", "-pre6", "c7", "-beta.1", "-alpha", "_rc_02", "preview3"]
POSTS = ["", "", "", ".post1", "-2", ".rev3", "post4", "-1", ".POST.05", "-r7"]
DEVS = ["", "", "", ".dev0", ".dev12", "dev3", "-dev", ".DEV.007"]
LOCALS = ["", "", "", "+local", "+ubuntu.1", "+abc.5.def", "+001", "+Build.7"]
LOCAL_LABELS = ["dev1", "ci.42", "abc", "1", "x.y.z", "20240101.gdeadbeef", "07"]   # [a-z0-9.] only (D11 otherwise)
PYTHONS = [">=3.8", "^3.9", ">=3.7,<4.0", "~3.10", ">=2.7", "~2.7 || ^3.6", "*", ">=3.8,!=3.9.0"]
WORDS = ["alpha", "beta", "core", "util", "io", "data", "net", "api", "impl", "compat", "cli", "types", "res", "tmpl"]
SPECIAL_FILE_NAMES = ["with space.txt", "comma,file.dat", "plus+sign.cfg", "café.txt", 'quo"te.txt', "semi;colon.ini",
                      "UPPER.TXT", "dot.in.name.json", "-leading-dash.txt", "trailing.", "tilde~", "[bracket].txt"]
EP_GROUPS = ["my.plugins", "pytest11", "poetry.application.plugin", "babel.extractors", "Group_With_Mixed.case"]
LICENSE_NAMES = ["LICENSE", "LICENSE.txt", "LICENCE", "COPYING", "COPYING.LESSER", "AUTHORS", "AUTHORS.md", "NOTICE",
                 "LICENSE-MIT"]
DEPS = ["requests", "attrs", "click", "tomli", "typing-extensions", "Jinja2"]


def gen_version(rnd: random.Random) -> tuple[str, list[str]]:
    """a PEP 440 version in a (possibly non-normal) spelling, and which parts it has"""
    v = rnd.choice(RELEASES)
    tags = []
    if rnd.random() < 0.2:
        v = rnd.choice(["1!", "2!", "0!"]) + v
        tags.append("epoch")
    for tag, pool in (("pre", PRES), ("post", POSTS), ("dev", DEVS), ("local", LOCALS)):
        x = rnd.choice(pool)
        if x:
            tags.append(tag)
        v += x
    if rnd.random() < 0.08:
        v = "v" + v
    return v, tags


def module_name(name: str) -> str:
    """canonicalize_name(name).replace('-', '_') — used only to *lay out* the tree the way the backend expects."""
    import re
    return re.sub(r"[-_.]+", "-", name).lower().replace("-", "_")


def py_source(rnd: random.Random, big: bool = False) -> bytes:
    lines = [f"# {rnd.choice(WORDS)} {rnd.randrange(10 ** 6)}", "from __future__ import annotations", ""]
    for _ in range(rnd.randint(0, 4)):
        lines.append(f"def {rnd.choice(WORDS)}_{rnd.randrange(100)}(x):\n    return x + {rnd.randrange(1000)}\n")
    if big:
        for i in range(rnd.randint(300, 900)):
            lines.append(f"V{i} = {rnd.randrange(10 ** 9)!r}  # filler so that the file spans several 8 KiB chunks")
    if rnd.random() < 0.1:
        lines.append("s = 'non-ascii: éè 中文'")
    nl = "\r\n" if rnd.random() < 0.05 else "\n"
    return nl.join(lines).encode("utf-8") + (b"" if rnd.random() < 0.1 else nl.encode())


def blob(rnd: random.Random) -> bytes:
    k = rnd.random()
    if k < 0.12:
        return b""
    if k < 0.2:
        n = rnd.choice([8191, 8192, 8193, 16384, 24577, 40000])
    elif k < 0.3:
        n = rnd.randint(8000, 70000)
    else:
        n = rnd.randint(1, 600)
    return rnd.randbytes(n)


def fname(rnd: random.Random, ext: str) -> str:
    return f"{rnd.choice(WORDS)}{rnd.randrange(100)}{ext}"


class _Tree:
    def __init__(self, rnd: random.Random) -> None:
        self.rnd = rnd
        self.files: dict[str, FileSpec] = {}
        self.sibling_data_dirs = False

    def add(self, path: str, data: bytes, mode: int = 0o644) -> str:
        if path not in self.files and not any(p.startswith(path + "/") or path.startswith(p + "/") for p in self.files):
            self.files[path] = FileSpec(path, data, mode)
        return path

    def package(self, base: str, depth: int = 0, stubs: bool = False, init: bool = True) -> None:
        """a (sub)package directory `base` with modules, data files, nested packages"""
        rnd = self.rnd
        ext = ".pyi" if stubs else ".py"
        if init:
            self.add(f"{base}/__init__{ext}", py_source(rnd))
        for _ in range(rnd.randint(0 if init else 1, 3)):
            self.add(f"{base}/{fname(rnd, ext)}", py_source(rnd, big=rnd.random() < 0.12),
                     0o755 if rnd.random() < 0.1 else 0o644)
        if stubs:
            if rnd.random() < 0.6:
                self.add(f"{base}/py.typed", b"partial\n" if rnd.random() < 0.3 else b"")
        else:
            for _ in range(rnd.randint(0, 2)):
                self.add(f"{base}/{fname(rnd, rnd.choice(['.json', '.txt', '.bin', '.tmp', '.xml']))}", blob(rnd),
                         0o755 if rnd.random() < 0.15 else 0o644)
            if rnd.random() < 0.2:
                self.add(f"{base}/{rnd.choice(SPECIAL_FILE_NAMES)}", blob(rnd))
            if rnd.random() < 0.15:
                self.add(f"{base}/__pycache__/{rnd.choice(WORDS)}.cpython-312.pyc", blob(rnd))
            if rnd.random() < 0.08:
                self.add(f"{base}/{rnd.choice(WORDS)}.pyc", blob(rnd))
            # data-only directories (no .py inside): one sometimes, several siblings when asked for
            want_dirs = rnd.randint(2, 4) if (self.sibling_data_dirs and depth == 0) else (1 if rnd.random() < 0.25 else 0)
            for d0 in rnd.sample(["data", "templates", "static", "assets", "locale", "Zeta", "_private", "données"], want_dirs):
                d = f"{base}/{d0}"
                for _ in range(rnd.randint(1, 3)):
                    self.add(f"{d}/{fname(rnd, rnd.choice(['.html', '.dat', '.tmp']))}", blob(rnd))
                if rnd.random() < 0.3:
                    self.add(f"{d}/deep/{fname(rnd, '.dat')}", blob(rnd))
        if depth < 2:
            for _ in range(rnd.choice([0, 0, 1, 1, 2]) if depth == 0 else rnd.choice([0, 0, 1])):
                self.package(f"{base}/{rnd.choice(WORDS)}{rnd.randrange(10)}", depth + 1, stubs,
                             init=stubs or rnd.random() < 0.85)


def generate(rnd: random.Random, want: set[str] | None = None) -> Project:
    """One random buildable project. `want` forces feature tags (layout:…, style:…) when given."""
    want = want or set()

    def pick(prefix: str, options: list[str]) -> str:
        forced = [w.split(":", 1)[1] for w in want if w.startswith(prefix + ":")]
        return forced[0] if forced else rnd.choice(options)

    feats: list[str] = []
    name = rnd.choice(NAMES)
    if rnd.random() < 0.5:
        name += rnd.choice(["", "", "2", "-ext", ".Sub", "_x"])
    version, vtags = gen_version(rnd)
    style = pick("style", ["project", "poetry", "poetry"])
    if style == "project":
        version = version.lower()   # the [project] schema pattern is lower-case only
    layout = pick("layout", ["package-flat", "package-flat", "package-src", "module-flat", "module-src", "explicit",
                             "explicit", "stubs"])
    feats += [f"style:{style}", f"layout:{layout}"]
    mod = module_name(name)
    t = _Tree(rnd)
    generate_setup = rnd.random() < 0.4 or "setup-file" in want
    t.sibling_data_dirs = generate_setup or rnd.random() < 0.15
    tool: dict[str, Any] = {}
    packages: list[dict[str, Any]] = []
    pkg_dirs: list[str] = []   # project-relative directories holding package code (for exclude patterns)

    if layout == "package-flat":
        t.package(mod)
        pkg_dirs.append(mod)
    elif layout == "package-src":
        t.package(f"src/{mod}")
        pkg_dirs.append(f"src/{mod}")
    elif layout == "module-flat":
        t.add(f"{mod}.py", py_source(rnd, big=rnd.random() < 0.2))
    elif layout == "module-src":
        t.add(f"src/{mod}.py", py_source(rnd))
    elif layout == "stubs":
        stub = f"{rnd.choice(WORDS)}{rnd.randrange(10)}-stubs"
        src = rnd.random() < 0.4
        base = f"src/{stub}" if src else stub
        t.package(base, stubs=True)
        e: dict[str, Any] = {"include": stub}
        if src:
            e["from"] = "src"
        packages.append(e)
        feats.append("stub-only")
    else:  # explicit packages table
        used: set[str] = set()
        for _ in range(rnd.randint(1, 3)):
            pk = f"{rnd.choice(WORDS)}_{rnd.randrange(100)}"
            if pk in used:
                continue
            used.add(pk)
            e = {"include": pk}
            kind = rnd.random()
            frm = rnd.choice(["lib", "src", "python/code", "quelltext-üñî", "исходники/код"]) if rnd.random() < 0.5 else None
            base = f"{frm}/{pk}" if frm else pk
            if kind < 0.25:  # single module
                e["include"] = pk + ".py"
                t.add(base + ".py", py_source(rnd))
                feats.append("pkg-module")
            else:
                if kind > 0.8:
                    e["include"] = pk + "/**/*.py" if rnd.random() < 0.5 else pk + "/**/*"
                    feats.append("pkg-glob")
                t.package(base)
                pkg_dirs.append(base)
            if frm:
                e["from"] = frm
                feats.append("pkg-from")
            if rnd.random() < 0.2:
                e["to"] = rnd.choice(["target", "deep/er", "vendor_ns"])
                feats.append("pkg-to")
            r = rnd.random()
            if r < 0.12:
                e["format"] = "sdist"
                feats.append("pkg-sdist-only")
            elif r < 0.24:
                e["format"] = ["wheel"]
                feats.append("pkg-wheel-only")
            elif r < 0.3:
                e["format"] = ["sdist", "wheel"]
            packages.append(e)
        # at least one package must be present in every format, and target paths must stay distinct
        if not any(set(_fmt(p)) >= {"sdist", "wheel"} for p in packages):
            pk = f"base_{rnd.randrange(100)}"
            t.package(pk)
            pkg_dirs.append(pk)
            packages.insert(rnd.randint(0, len(packages)), {"include": pk})
    if packages:
        tool["packages"] = packages
    if generate_setup:
        tool["build"] = {"generate-setup-file": True}    # no build script: stays pure Python, nothing is executed
        feats.append("generate-setup-file")

    # ---- readme, licences ---------------------------------------------------------------
    readme = None
    if rnd.random() < 0.6:
        readme = rnd.choice(["README.md", "README.rst", "README.txt", "docs/README.md"])
        t.add(readme, ("# " + name + "\n\nSome text — with unicode.\n" + "para\n" * rnd.randint(0, 30)).encode("utf-8"))
        feats.append("readme")
    if rnd.random() < 0.55:
        for ln in rnd.sample(LICENSE_NAMES, rnd.randint(1, 3)):
            t.add(ln, ("licence text " + ln + "\n").encode() * rnd.randint(1, 40), 0o755 if rnd.random() < 0.05 else 0o644)
        feats.append("license-files")
    if rnd.random() < 0.2:
        t.add("LICENSES/MIT.txt", b"MIT\n" * 20)
        if rnd.random() < 0.5:
            t.add("LICENSES/sub/Apache-2.0.txt", b"Apache\n" * 20)
        feats.append("licenses-dir")

    # ---- include / exclude --------------------------------------------------------------
    includes: list[Any] = []
    if rnd.random() < 0.5:
        feats.append("include")
        for _ in range(rnd.randint(1, 3)):
            k = rnd.random()
            fmt: Any = rnd.choice([None, None, "sdist", "wheel", ["sdist", "wheel"], ["wheel"]])
            if k < 0.35:
                p = t.add(rnd.choice(["CHANGELOG.md", "HISTORY.rst", "extra.cfg", "tox.ini"]), blob(rnd))
                path = p
            elif k < 0.7:
                d = rnd.choice(["extra_data", "docs", "share/misc"])
                for _ in range(rnd.randint(1, 3)):
                    t.add(f"{d}/{fname(rnd, rnd.choice(['.txt', '.dat']))}", blob(rnd), 0o755 if rnd.random() < 0.1 else 0o644)
                if rnd.random() < 0.4:
                    t.add(f"{d}/nested/{fname(rnd, '.txt')}", blob(rnd))
                path = rnd.choice([f"{d}/*.txt", f"{d}/**/*", d, f"{d}/**/*.dat"])
            else:
                d = rnd.choice(["tests", "examples"])
                t.add(f"{d}/test_{rnd.choice(WORDS)}.py", py_source(rnd))
                t.add(f"{d}/conftest.py", py_source(rnd))
                path = rnd.choice([d, f"{d}/**/*.py", f"{d}/*"])
            if any(fl.startswith(path.split("*")[0]) for fl in t.files) or path in t.files:
                if fmt is None and rnd.random() < 0.5:
                    includes.append(path)
                else:
                    ent: dict[str, Any] = {"path": path}
                    if fmt is not None:
                        ent["format"] = fmt
                        feats.append("include-format")
                    includes.append(ent)
        if includes:
            tool["include"] = includes
    excludes: list[str] = []
    if pkg_dirs and rnd.random() < 0.45:
        feats.append("exclude")
        for _ in range(rnd.randint(1, 2)):
            d = rnd.choice(pkg_dirs)
            k = rnd.random()
            if k < 0.4:
                excludes.append(f"{d}/**/*.tmp")
            elif k < 0.6:
                excludes.append(f"{d}/**/*.xml")
            elif k < 0.8:
                # one concrete non-__init__ file of the package, if there is one
                cands = [p for p in t.files if p.startswith(d + "/") and not p.endswith("__init__.py") and "__pycache__" not in p]
                if cands:
                    excludes.append(rnd.choice(cands).replace("[", "[[]"))
            else:
                excludes.append("does-not-exist")
        if excludes:
            tool["exclude"] = excludes

    # ---- scripts, entry points ----------------------------------------------------------
    console: dict[str, str] = {}
    gui: dict[str, str] = {}
    groups: dict[str, dict[str, str]] = {}
    file_scripts: dict[str, str] = {}
    if rnd.random() < 0.5:
        feats.append("console-scripts")
        for _ in range(rnd.randint(1, 3)):
            console[f"{rnd.choice(WORDS)}-{rnd.randrange(50)}"] = f"{mod}.{rnd.choice(WORDS)}:main"
    if rnd.random() < 0.15 and style == "project":
        feats.append("gui-scripts")
        gui[f"{rnd.choice(WORDS)}-gui"] = f"{mod}.gui:run"
    if rnd.random() < 0.35:
        feats.append("plugins")
        for g in rnd.sample(EP_GROUPS, rnd.randint(1, 2)):
            groups[g] = {f"{rnd.choice(WORDS)}{rnd.randrange(50)}": f"{mod}.{rnd.choice(WORDS)}:{rnd.choice(['Plugin', 'hook [extra1]', 'obj.attr'])}"
                         for _ in range(rnd.randint(1, 3))}
    if rnd.random() < 0.45:
        feats.append("file-scripts")
        seen: set[str] = set()
        for _ in range(rnd.randint(1, 3)):
            base = rnd.choice(["run.sh", "tool.py", "do-it", "Script With Space.sh", "x.bat"])
            if base in seen:      # same base name twice would collide in <data>/scripts (recorded finding)
                continue
            seen.add(base)
            p = f"{rnd.choice(['bin', 'scripts', 'tools/sub'])}/{base}"
            t.add(p, b"#!/bin/sh\necho " + str(rnd.randrange(1000)).encode() + b"\n",
                  rnd.choice([0o755, 0o755, 0o644]))
            if p in t.files:
                file_scripts[f"fs-{len(file_scripts)}-{rnd.randrange(100)}"] = p

    # ---- dependencies / extras ----------------------------------------------------------
    python = rnd.choice(PYTHONS)
    deps = rnd.sample(DEPS, rnd.randint(0, 3))
    optional = rnd.sample([d for d in DEPS if d not in deps], rnd.randint(0, 2)) if rnd.random() < 0.4 else []
    extras: dict[str, list[str]] = {}
    if optional:
        feats.append("extras")
        for i, d in enumerate(optional):
            extras.setdefault(rnd.choice(["extra1", "Feature_Two", "all"]), []).append(d)

    # ---- pyproject ----------------------------------------------------------------------
    desc = rnd.choice(["A package.", "Something useful: with colon", "Unicode déscription ✓", ""])
    authors = rnd.choice([[], [("Jane Doe", "jane@example.com")], [("Jane Doe", "jane@example.com"), ("Séb", "s@e.io")]])
    lic = rnd.choice([None, "MIT", "Apache-2.0", "Proprietary-ish"])
    parts: list[str] = []
    if style == "poetry":
        main: dict[str, Any] = {"name": name, "version": version, "description": desc,
                                "authors": [f"{n} <{e}>" for n, e in authors]}
        if lic:
            main["license"] = lic
        if readme:
            main["readme"] = readme
        if rnd.random() < 0.3:
            main["keywords"] = rnd.sample(WORDS, 2)
        if rnd.random() < 0.3:
            main["homepage"] = "https://example.com/" + mod
        main.update(tool)
        parts.append(ttable("tool.poetry", main))
        dd: dict[str, Any] = {"python": python}
        for d in deps:
            dd[d] = rnd.choice(["*", "^1.0", ">=2.0,<3.0"])
        for d in optional:
            dd[d] = {"version": "^1.0", "optional": True}
        parts.append(ttable("tool.poetry.dependencies", dd))
        if extras:
            parts.append(ttable("tool.poetry.extras", extras))
        sc: dict[str, Any] = dict(console)
        for k, p in file_scripts.items():
            sc[k] = {"reference": p, "type": "file"}
        if sc:
            parts.append(ttable("tool.poetry.scripts", sc))
        for g, eps in groups.items():
            parts.append(ttable("tool.poetry.plugins." + tstr(g), eps))
    else:
        main = {"name": name, "version": version, "description": desc,
                "authors": [{"name": n, "email": e} for n, e in authors]}
        if lic:
            main["license"] = {"text": lic} if rnd.random() < 0.5 else lic
        if readme:
            main["readme"] = readme
        if python != "*" and not any(c in python for c in "^~|"):
            main["requires-python"] = python
        else:
            main["requires-python"] = rnd.choice([">=3.8", ">=3.9,<4.0", ">=2.7"])
        python = main["requires-python"]
        dl = [d + rnd.choice(["", ">=1.0", ">=2.0,<3.0"]) for d in deps]
        main["dependencies"] = dl
        if rnd.random() < 0.3:
            main["keywords"] = rnd.sample(WORDS, 2)
        parts.append(ttable("project", main))
        if extras:
            parts.append(ttable("project.optional-dependencies", {k: [d + ">=1.0" for d in v] for k, v in extras.items()}))
        if console:
            parts.append(ttable("project.scripts", console))
        if gui:
            parts.append(ttable("project.gui-scripts", gui))
        for g, eps in groups.items():
            parts.append(ttable("project.entry-points." + tstr(g), eps))
        if tool:
            parts.append(ttable("tool.poetry", tool))
        if file_scripts:
            parts.append(ttable("tool.poetry.scripts", {k: {"reference": p, "type": "file"} for k, p in file_scripts.items()}))
    parts.append(BUILD_SYSTEM)
    pyproject = "\n".join(parts)

    config = None
    if rnd.random() < 0.25:
        config = {"local-version": rnd.choice(LOCAL_LABELS)}
        feats.append("local-version")
    feats += vtags
    if mod != name:
        feats.append("name-normalised")
    files = list(t.files.values())
    rnd.shuffle(files)
    root_dirname = rnd.choice(["proj", "proj", "projet-é ü", "工程-пакет", "Ünï"])
    if not root_dirname.isascii():
        feats.append("root-non-ascii")
    if any(not str(e.get("from", "")).isascii() for e in packages):
        feats.append("from-non-ascii")
    meta = {"root_dirname": root_dirname, "generate_setup": generate_setup, "module": mod, "layout": layout, "packages": packages, "include": includes, "exclude": excludes,
            "console": console, "gui": gui, "groups": groups, "file_scripts": file_scripts, "python": python,
            "extras": extras, "deps": deps, "optional": optional, "readme": readme, "pkg_dirs": pkg_dirs}
    return Project(name, version, style, pyproject, files, config, sorted(set(feats)), meta)


def _fmt(p: dict[str, Any]) -> list[str]:
    f = p.get("format", ["sdist", "wheel"])
    return f if isinstance(f, list) else [f]


if __name__ == "__main__":   # manual smoke run: python -m vp.gen_project <seed> <n>
    import sys
    r = random.Random(int(sys.argv[1]) if len(sys.argv) > 1 else 0)
    for _ in range(int(sys.argv[2]) if len(sys.argv) > 2 else 3):
        pr = generate(r)
        print("=" * 60, pr.name, pr.version, pr.features)
        print(pr.pyproject)
        for fl in sorted(pr.files, key=lambda x: x.path):
            print("  ", oct(fl.mode), len(fl.data), fl.path)
