"""C08 — builds are reproducible: same sources and settings give identical bytes."""
from __future__ import annotations

import grp
import os
import pwd
import random
import stat
import time
from pathlib import Path
from typing import Any

from . import build_common as bc
from . import core, gen_project
from .c01 import EXEC_MODES, NONEXEC_MODES, US, model_lines_for, pack

PROP = "C08"
LEAN_MODULE = "PoetryVerif.Props.C08"
RULE = ("seeded project trees from vp/gen_project.py; each is built (wheel + sdist) unperturbed and again after a perturbation, "
        "under the same SOURCE_DATE_EPOCH drawn from {unset, 0, 315532799, 315532800, recent, non-integer}: touch to random "
        "mtimes, chmod inside the executable/non-executable class (files and directories), tree re-created in a different "
        "creation order at a different path, different cwd, TZ / LC_ALL / umask, a previous dist/ and build artefacts left "
        "behind, all at once. A case = one (project, perturbation, format) rebuild; non-trivial when both builds succeed and "
        "the archive has members besides metadata; distinct = distinct (project, perturbation, SOURCE_DATE_EPOCH, format).")
ASSUMPTIONS = [
    "zip/deflate, tar/PAX and gzip encoders are deterministic functions of the description (member order, names, modes, owners, times, bytes); the check compares bytes with bytes on every case, the theorems speak about the description",
    "time.gmtime is the proleptic Gregorian calendar; int() as modelled for ASCII text (surrounding white space, sign, single underscores, 4300-digit limit)",
    "which files a glob reaches is an abstract predicate in the theorems (selection logic is C09); the harness feeds the model the set find_files_to_add() returned, in its real iteration order",
    "editable wheels are out of scope of C08 (their .pth holds the absolute project path by design)",
    "PYTHONHASHSEED: varied for a subset of the projects by building in two fresh interpreters (bytes compared); inside the check process set-iteration order varies only through different absolute paths",
    "SOURCE_DATE_EPOCH beyond 2107-12-31 makes zipfile raise struct.error (no archive is produced); outside the property's value set",
]

DEFAULT_DT = (2016, 1, 1, 0, 0, 0)
PERTURBATIONS = ["touch", "chmod", "recreate", "cwd-env", "leftovers", "listing", "all"]
TZS = ["Asia/Tokyo", "America/New_York", "UTC", "Pacific/Chatham"]
LOCALES = ["C", "en_US.UTF-8", "tr_TR.UTF-8", "POSIX"]
UMASKS = [0o077, 0o002, 0o000, 0o027]
DIR_MODES = [0o755, 0o700, 0o775, 0o750, 0o711 | 0o400]


def sde_values(rnd: random.Random) -> list[str | None]:
    return [None, "0", "315532799", "315532800", str(rnd.randint(1_600_000_000, 1_760_000_000)), "x"]


def expected_wheel_dt(sde: str | None) -> tuple[int, ...]:
    """the property's reading of SOURCE_DATE_EPOCH for zip members"""
    if sde is None:
        return DEFAULT_DT
    try:
        t = int(sde)
    except ValueError:
        return DEFAULT_DT
    dt = tuple(time.gmtime(t)[:6])
    return DEFAULT_DT if t < 315532800 else dt


def expected_sdist_mtime(sde: str | None) -> int:
    if not sde:
        return 0
    try:
        return int(sde)
    except ValueError:
        return 0


# --------------------------------------------------------------------------------------
# perturbations (deterministic from a sub-seed so that a witness replays)
# --------------------------------------------------------------------------------------

def touch_all(root: Path, prng: random.Random) -> None:
    for dp, dns, fns in os.walk(root):
        for n in fns + dns:
            t = prng.uniform(1.0e9, 1.9e9)
            os.utime(os.path.join(dp, n), (t, t))
    os.utime(root, (1.2e9, 1.2e9))


def chmod_all(root: Path, prng: random.Random) -> None:
    for dp, dns, fns in os.walk(root):
        for n in fns:
            p = os.path.join(dp, n)
            m = os.stat(p).st_mode
            os.chmod(p, prng.choice(EXEC_MODES if m & stat.S_IXUSR else NONEXEC_MODES) | 0o400)
        for n in dns:
            os.chmod(os.path.join(dp, n), prng.choice(DIR_MODES))


def leave_artefacts(root: Path, p: gen_project.Project, prng: random.Random) -> None:
    """a previous build's output and typical by-products"""
    prev = bc.build(root, "wheel", "builder", root / "dist", p.config_settings, want_log=False)
    prev2 = bc.build(root, "sdist", "builder", root / "dist", p.config_settings, want_log=False)
    assert prev.ok and prev2.ok, (prev.error, prev2.error)
    mod = p.meta.get("module", "m")
    for rel, data in [(f"build/lib/{mod}/junk.py", b"junk = 1\n"), ("build/bdist.linux-x86_64/x", b"x"),
                      (f"{mod}.egg-info/PKG-INFO", b"Metadata-Version: 1.0\n"), ("dist/older-0.0.1.tar.gz", b"\x1f\x8b"),
                      (".pytest_cache/v/cache/lastfailed", b"{}"), ("__pycache__/conftest.cpython-312.pyc", b"\0\0")]:
        q = root / rel
        q.parent.mkdir(parents=True, exist_ok=True)
        q.write_bytes(data)
    for d in p.meta.get("pkg_dirs", []):
        q = root / d / "__pycache__" / f"left{prng.randrange(100)}.cpython-312.pyc"
        q.parent.mkdir(parents=True, exist_ok=True)
        q.write_bytes(b"\0" * prng.randint(1, 50))


def perturbed_tree(base: Path, p: gen_project.Project, kind: str, prng: random.Random) -> tuple[Path, dict[str, Any]]:
    """materialise `p` again as the perturbation says; returns (root, build kwargs)"""
    kw: dict[str, Any] = {"environ": {}, "umask": None, "cwd": None, "api": prng.choice(["hook", "builder"])}
    n = len(p.all_files())
    order = list(range(n))
    dirname = p.meta.get("root_dirname", "proj")
    parent = base / "p"
    if kind in ("recreate", "all"):
        prng.shuffle(order)
        # incl. names holding the characters glob / fnmatch / shells / URLs give a meaning to: the location must not matter
        dirname = prng.choice(["other place/x y", "deeper/down/the/tree/pkg", "Z", "a-b_c.d", "répertoire/проект",
                               "build[1]/proj", "a*b/p?q", "{x,y}/[!a]z", "~t/$HOME/%41#f", "[abc]"])
        parent = base / "q"
    parent.mkdir(parents=True, exist_ok=True)
    root = bc.materialise(p, order=order, parent=str(parent), dirname=dirname)
    if kind in ("touch", "all"):
        touch_all(root, prng)
    if kind in ("chmod", "all"):
        chmod_all(root, prng)
    if kind in ("cwd-env", "all"):
        kw["environ"] = {"TZ": prng.choice(TZS), "LC_ALL": prng.choice(LOCALES), "LANG": prng.choice(LOCALES),
                         "PYTHONIOENCODING": None, "HOME": str(base)}
        kw["umask"] = prng.choice(UMASKS)
        kw["cwd"] = prng.choice([str(base), "/", str(root / ".."), "/tmp"])
        kw["api"] = "builder"
    if kind in ("leftovers", "all"):
        leave_artefacts(root, p, prng)
    if kind in ("listing", "all", "recreate"):
        # ext4/tmpfs listing order does not follow creation order: permute what scandir/listdir report instead
        kw["listing"] = (prng.choice(["reversed", "shuffled", "shuffled"]), prng.getrandbits(16))
    return root, kw


def build_both(root: Path, out: Path, p: gen_project.Project, sde: str | None, kw: dict[str, Any]) -> dict[str, Any]:
    res: dict[str, Any] = {}
    environ = dict(kw.get("environ") or {})
    environ["SOURCE_DATE_EPOCH"] = sde
    lst = kw.get("listing")
    lctx = bc.listing_order(root, lst[0], lst[1]) if lst else bc.listing_order(root, "sorted")
    with bc.env(environ=environ, umask=kw.get("umask")), lctx as lstats:
        res["listings"] = lstats
        for fmt in ("wheel", "sdist"):
            o = out / fmt
            o.mkdir(parents=True, exist_ok=True)
            b = bc.build(root, fmt, kw.get("api", "hook"), o, p.config_settings, cwd=kw.get("cwd"))
            res[fmt] = b
            if b.ok:
                res[fmt + "_bytes"] = b.path.read_bytes()
                res[fmt + "_desc"] = bc.read_wheel(b.path) if fmt == "wheel" else bc.read_sdist(b.path)
                if fmt == "sdist":
                    res["sdist_stat"] = sdist_inputs(b)
                else:
                    res["wheel_lines"] = None
    return res


def owner(uid: int, gid: int) -> tuple[str, str]:
    try:
        un = pwd.getpwuid(uid).pw_name
    except KeyError:
        un = ""
    try:
        gn = grp.getgrgid(gid).gr_name
    except KeyError:
        gn = ""
    return un, gn


def sdist_inputs(b: bc.Built) -> list[str]:
    """what tar.gettarinfo sees for every selected file, in the set's iteration order (input of the model)"""
    assert b.log is not None
    items = []
    for ab, rel in b.log.sdist_to_add:
        st = os.stat(ab)
        data = b"" if stat.S_ISDIR(st.st_mode) else Path(ab).read_bytes()   # LICENSES/** can select a directory
        un, gn = owner(st.st_uid, st.st_gid)
        items.append(pack(rel, stat.S_IMODE(st.st_mode), st.st_uid, st.st_gid, un, gn, int(st.st_mtime), len(data), bc.b64digest(data)))
    return items


# --------------------------------------------------------------------------------------
# one (project, perturbation, SOURCE_DATE_EPOCH) case
# --------------------------------------------------------------------------------------

def check_case(ctx: core.Ctx, p: gen_project.Project, kind: str, sde: str | None, pseed: int, stream: str,
               base_cache: dict[Any, Any] | None = None, facts_cache: dict[str, Any] | None = None) -> None:
    base = bc.scratch("pcv-c08-")
    wit = {"project": p.to_json(), "perturbation": kind, "sde": sde, "pseed": pseed}
    key = f"{kind}|{sde!r}|{p.signature()}"
    try:
        prng = random.Random(pseed)
        root0 = bc.materialise(p, parent=str(base / "p0"), dirname=p.meta.get("root_dirname", "proj"))
        r0 = build_both(root0, base / "out0", p, sde, {"api": "hook"})
        root1, kw = perturbed_tree(base, p, kind, prng)
        r1 = build_both(root1, base / "out1", p, sde, kw)
        if kw.get("listing"):
            ctx.count("listings-permuted", r1["listings"]["listings"])
        avoid_ok: bool | None = None
        if kind in ("leftovers", "all"):
            av = core.run_driver([core.line("bavoid", pack(*leftover_tops(p)), *glob_specs(p))])[0]
            avoid_ok = av[0] == "ok" and all(x == "1" for x in av[1:])
            ctx.count("leftovers:model-avoids" if avoid_ok else "leftovers:model-reaches:" + ",".join(av[1:]))
        lines: list[str] = []
        slots: list[tuple[str, Any]] = []
        for fmt in ("wheel", "sdist"):
            b0, b1 = r0[fmt], r1[fmt]
            ck = f"{fmt}|{key}"
            if not (b0.ok and b1.ok):
                ctx.case(ck, nontrivial=False)
                ctx.count("build-failed:" + (b0.error or b1.error).split(":")[0])
                ctx.notes.append(f"build failed: {b0.error or b1.error}"[:300])
                if b0.ok != b1.ok:
                    ctx.violate("buildable:" + ck, f"{fmt} builds unperturbed={b0.ok} but after {kind} perturbation={b1.ok}: {b0.error or b1.error}", wit)
                continue
            d0, d1 = r0[fmt + "_desc"], r1[fmt + "_desc"]
            ctx.case(ck, nontrivial=len(d1.members) > 3, sample={"file": b1.returned, "perturbation": kind, "sde": sde,
                                                                 "members": len(d1.members), "sha256": d1.raw_sha256[:16]})
            ctx.count(f"{fmt}:{kind}")
            ctx.count(f"sde:{sde!r}")
            # ---- the property on the real files: names, bytes, timestamps
            if b0.returned != b1.returned:
                ctx.violate("name:" + ck, f"{fmt} file name changed by {kind}: {b0.returned!r} vs {b1.returned!r}", wit)
            if kind in ("leftovers", "all") and avoid_ok is False and r0[fmt + "_bytes"] != r1[fmt + "_bytes"]:
                ctx.count("out-of-quantifier:include-reaches-leftovers")     # the configuration itself selects dist/ or build/
            elif r0[fmt + "_bytes"] != r1[fmt + "_bytes"]:
                c0, c1 = d0.canonical(), d1.canonical()
                diff = next((f"{a} != {b}" for a, b in zip(c0, c1) if a != b), f"{len(c0)} vs {len(c1)} entries")
                where = "description differs: " + diff if c0 != c1 else "descriptions equal, encoder output differs"
                ctx.violate("bytes:" + ck, f"{fmt} of {p.name} {p.version} is not byte-identical after perturbation {kind!r} "
                            f"(SOURCE_DATE_EPOCH={sde!r}): {where}"[:600], wit)
            if fmt == "wheel":
                want = bc.zip_dos_time(expected_wheel_dt(sde))   # zip stores seconds with 2 s resolution
                got = {tuple(m["date_time"]) for m in d1.members}
                if got != {want}:
                    ctx.violate("wheel-time:" + ck, f"wheel member date_time {sorted(got)[:3]} with SOURCE_DATE_EPOCH={sde!r}, expected {want}", wit)
            else:
                want_m = expected_sdist_mtime(sde)
                got_m = {m["mtime"] for m in d1.members} | {d1.gzip_mtime}
                if got_m != {want_m}:
                    ctx.violate("sdist-time:" + ck, f"sdist mtimes {sorted(got_m)[:4]} with SOURCE_DATE_EPOCH={sde!r}, expected {want_m}", wit)
                for m in d1.members:
                    if (m["uid"], m["gid"], m["uname"], m["gname"]) != (0, 0, "", "") or (m["mode"] & 0o777) not in (0o644, 0o755):
                        ctx.violate("sdist-owner:" + ck, f"sdist member {m['name']!r} carries owner/mode {m['uid']}/{m['gid']}/{m['uname']!r}/{m['gname']!r}/{oct(m['mode'])}", wit)
                        break
            # ---- model description vs real description (perturbed build: arbitrary order / metadata as input)
            if fmt == "wheel":
                di = d1.dist_info_dirs[0] if d1.dist_info_dirs else "?"
                data_folder = di[: -len(".dist-info")] + ".data"
                ls = model_lines_for(b1, d1, sde, p.meta.get("module", "m"), data_folder)
                lines.append(ls[2])
                slots.append(("wheel", (b1, d1)))
            else:
                tar_dir = d1.file_name[: -len(".tar.gz")]
                last = d1.members[-1]
                has_setup = bool(p.meta.get("generate_setup"))
                su = d1.members[-2] if has_setup and len(d1.members) >= 2 else {"digest": "", "size": 0}
                lines.append(core.line("bsdist", tar_dir, "0" if sde is None else "1", sde or "", last["digest"], str(last["size"]),
                                       "1" if has_setup else "0", su["digest"], str(su["size"]), *r1["sdist_stat"]))
                slots.append(("sdist", (b1, d1)))
        lines.append(core.line("btime", "wheel", "0" if sde is None else "1", sde or ""))
        lines.append(core.line("btime", "sdist", "0" if sde is None else "1", sde or ""))
        replies = core.run_driver(lines)
        dis = 0
        for (fmt, (b1, d1)), rep in zip(slots, replies):
            sig = {"name": p.name, "version": p.version, "fmt": fmt, "perturbation": kind, "sde": sde}
            if rep[0] != "ok":
                dis += 1
                ctx.disagree("model-" + fmt, sig, "built", rep)
                continue
            if fmt == "wheel":
                n = int(rep[4])
                model_members = rep[5 + n:]
                if model_members:
                    last = model_members[-1].split(US)
                    last[2] = bc.b64digest(rep[3].encode("utf-8"))
                    last[3] = str(len(rep[3].encode("utf-8")))
                    model_members[-1] = US.join(last)
                real = [pack(m["name"], (m["mode"] << 16) | m["attr_low"], m["digest"], m["size"]) for m in d1.members]
                dts = {",".join(map(str, m["date_time"])) for m in d1.members}
                if model_members != real or dts != {",".join(map(str, bc.zip_dos_time(rep[1].split(","))))} or rep[3] != d1.record_text:
                    dis += 1
                    diff = [(a, c) for a, c in zip(real, model_members) if a != c][:2]
                    ctx.disagree("wheel-description", sig, {"n": len(real), "dt": sorted(dts), "diff": diff}, {"n": len(model_members), "dt": rep[1]})
            else:
                real = [pack(m["name"], m["mode"], m["uid"], m["gid"], m["uname"], m["gname"], m["mtime"], m["size"], m["digest"])
                        for m in d1.members]
                if rep[2:] != real or rep[1] != str(d1.gzip_mtime):
                    dis += 1
                    diff = [(a, c) for a, c in zip(real, rep[2:]) if a != c][:2]
                    ctx.disagree("sdist-description", sig, {"n": len(real), "gz": d1.gzip_mtime, "diff": diff}, {"n": len(rep) - 2, "gz": rep[1]})
                if d1.gzip_fname != d1.file_name[: -len(".gz")]:
                    ctx.count("gzip-fname-unexpected")
        tw, ts = replies[-2], replies[-1]
        if tw != ["ok", ",".join(map(str, expected_wheel_dt(sde)))] or ts != ["ok", str(expected_sdist_mtime(sde))]:
            dis += 1
            ctx.disagree("timestamps", sde, [expected_wheel_dt(sde), expected_sdist_mtime(sde)], [tw, ts])
        ctx.stream(stream, len(slots), dis)
    finally:
        for dp, dns, _f in os.walk(base):    # directories may have been made unwritable by a perturbation
            for n in dns:
                try:
                    os.chmod(os.path.join(dp, n), 0o755)
                except OSError:
                    pass
        bc.rmtree(base)


HASHSEED_SCRIPT = """
import hashlib, os, sys, logging
sys.path.insert(0, sys.argv[1])
os.chdir(sys.argv[2])
from poetry.core.masonry import api
logging.getLogger("poetry.core").setLevel(logging.CRITICAL)
import json
cfg = json.loads(sys.argv[4]) or None
fns = [(api.build_wheel, "w"), (api.build_sdist, "s")]
if len(sys.argv) > 5 and sys.argv[5] == "editable":
    fns.append((api.build_editable, "e"))
for fn, sub in fns:
    out = os.path.join(sys.argv[3], sub); os.makedirs(out, exist_ok=True)
    n = fn(out, cfg)
    print(n, hashlib.sha256(open(os.path.join(out, n), "rb").read()).hexdigest())
"""


def two_bases_project() -> gen_project.Project:
    """regression for repo fix 15ba16f: an editable wheel whose .pth lists two include bases (formerly written in
    set-iteration order, so the bytes depended on PYTHONHASHSEED)"""
    py = ('[tool.poetry]\nname = "two-bases"\nversion = "1.0"\ndescription = ""\nauthors = []\n'
          'packages = [{ include = "aa", from = "lib" }, { include = "bb", from = "src" }, { include = "cc", from = "third/party" }]\n\n'
          '[tool.poetry.dependencies]\npython = ">=3.8"\n\n' + gen_project.BUILD_SYSTEM)
    files = [gen_project.FileSpec(f"{d}/__init__.py", b"x = 1\n") for d in ("lib/aa", "src/bb", "third/party/cc")]
    return gen_project.Project("two-bases", "1.0", "poetry", py, files, None, ["corpus", "editable-two-bases"],
                               {"module": "two_bases", "editable": True})


def hashseed_case(ctx: core.Ctx, p: gen_project.Project, seeds: tuple[int, ...], stream: str) -> None:
    """str-hash randomisation (PYTHONHASHSEED) changes every set/dict-of-str iteration order: build in two fresh
    interpreters and compare bytes (wheel + sdist; for projects marked `editable` in their meta also the editable wheel,
    built at the same path)."""
    import json
    import subprocess
    base = bc.scratch("pcv-c08h-")
    wit = {"project": p.to_json(), "perturbation": "hashseed", "seeds": list(seeds)}
    try:
        root = bc.materialise(p, parent=str(base))
        outs = []
        for sd in seeds:
            o = base / f"out{sd}"
            o.mkdir()
            env = dict(os.environ, PYTHONHASHSEED=str(sd))
            env.pop("SOURCE_DATE_EPOCH", None)
            r = subprocess.run([core.PY, "-c", HASHSEED_SCRIPT, str(core.REPO / "src"), str(root), str(o),
                                json.dumps(p.config_settings), "editable" if p.meta.get("editable") else "-"], capture_output=True, text=True, env=env, timeout=120)
            outs.append(r.stdout.split() if r.returncode == 0 else ["failed", r.stderr[-200:]])
        ctx.case("hashseed|" + p.signature(), nontrivial=outs[0][:1] != ["failed"], sample={"hashseed": list(seeds), "result": outs[0][:2]})
        ctx.count("hashseed")
        if any(o != outs[0] for o in outs[1:]):
            ctx.violate("hashseed:" + p.signature(), f"archives of {p.name} {p.version} differ between PYTHONHASHSEED values {list(seeds)}: {outs}"[:600], wit)
        ctx.stream(stream, 1, 0)
    finally:
        bc.rmtree(base)


def setup_stream(ctx: core.Ctx, p: gen_project.Project, pseed: int) -> None:
    """`SdistBuilder.find_packages` (packages / package_data of the generated setup.py): real result vs model, on the
    tree as listed and on a shuffled listing; the two real results must agree (they feed setup.py)."""
    from poetry.core.factory import Factory
    from poetry.core.masonry.builders.sdist import SdistBuilder
    from poetry.core.masonry.utils.package_include import PackageInclude
    bc._quiet()
    base = bc.scratch("pcv-c08s-")
    RS = "\x1e"
    try:
        root = bc.materialise(p, parent=str(base), dirname=p.meta.get("root_dirname", "proj"))
        results = []
        lines = []
        for mode in ("sorted", "shuffled"):
            with bc.listing_order(root, mode, pseed):
                sb = SdistBuilder(Factory().create_poetry(root, with_groups=False))
                for inc in sb._module.includes:
                    if not (isinstance(inc, PackageInclude) and inc.is_package() and "sdist" in inc.formats):
                        continue
                    _pkgdir, packages, pkg_data = sb.find_packages(inc)
                    wbase = str(inc.elements[0].parent)
                    dirs = []
                    for path, _dn, filenames in os.walk(wbase, topdown=True):
                        rel = os.path.relpath(path, wbase)
                        if Path(path).name == "__pycache__" or rel == ".":
                            continue
                        fs = [RS.join([fn, "1" if fn.endswith(".py") else "0",
                                       "1" if sb.is_excluded(Path(path, fn).relative_to(sb._path)) else "0"]) for fn in filenames]
                        dirs.append(pack(Path(rel).as_posix(), *fs))
                    lines.append(core.line("bsetup", inc.package, *dirs))
                    results.append((mode, inc.package, packages, sorted((k, list(v)) for k, v in pkg_data.items())))
        rep = core.run_driver(lines)
        dis = 0
        for (mode, pkg, packages, data), r in zip(results, rep):
            model_p = r[1].split(US) if len(r) > 1 else []
            model_d = [(x.split(US)[0], x.split(US)[1:]) for x in r[2:]]
            if r[0] != "ok" or model_p != packages or model_d != data:
                dis += 1
                ctx.disagree("find-packages", {"project": p.name, "package": pkg, "listing": mode}, [packages, data], r[1:])
            ctx.evaluations += 1
        half = len(results) // 2
        for a, b2 in zip(results[:half], results[half:]):
            if a[1:] != b2[1:]:
                ctx.violate("setup-listing:" + p.signature(), f"setup.py lists of package {a[1]!r} depend on the directory listing order: {a[2:]} vs {b2[2:]}"[:600],
                            {"project": p.to_json(), "perturbation": "setup-listing", "pseed": pseed})
        ctx.stream("find-packages", len(results), dis)
        ctx.count("find-packages", len(results))
    finally:
        bc.rmtree(base)


LEGAL_ROOT = ["COPYING*", "LICEN[SC]E*", "AUTHORS*", "NOTICE*"]


def glob_specs(p: gen_project.Project) -> list[str]:
    """the project's include rules as (base, pattern, isPackage) — input of the model's `GlobSpec.avoids`"""
    meta = p.meta
    mod = meta.get("module", "m")
    specs: list[tuple[str, str, str]] = []
    pkgs = meta.get("packages") or []
    if not pkgs:
        lay = meta.get("layout", "")
        base = "src" if lay.endswith("-src") else ""
        specs.append((base, mod if lay.startswith("package") else mod + ".py", "1"))
    for e in pkgs:
        specs.append((e.get("from", "") or "", e["include"], "1"))
    for inc in meta.get("include") or []:
        specs.append(("", inc if isinstance(inc, str) else inc["path"], "0"))
    for pat in LEGAL_ROOT:
        specs.append(("", pat, "0"))
    specs.append(("LICENSES", "**/*", "0"))
    for lit in [meta.get("readme"), "pyproject.toml", *(meta.get("file_scripts") or {}).values()]:
        if lit:
            specs.append(("", lit.replace("[", "[[]"), "0"))
    return [pack(*x) for x in specs]


def leftover_tops(p: gen_project.Project) -> list[str]:
    return ["dist", "build", p.meta.get("module", "m") + ".egg-info", ".pytest_cache"]


def reaches_dist_corpus(ctx: core.Ctx) -> None:
    """The complement of `rebuild_idempotent`'s condition on the real code: with `include = ["dist/*"]` the second sdist
    build packs the first one.  Not a violation of C08 (the project's own configuration makes dist/ part of its
    content); recorded so that the boundary stays observed, and the model must predict it."""
    py = ('[tool.poetry]\nname = "reaches-dist"\nversion = "1.0"\ndescription = ""\nauthors = []\ninclude = ["dist/*"]\n\n'
          '[tool.poetry.dependencies]\npython = ">=3.8"\n\n' + gen_project.BUILD_SYSTEM)
    p = gen_project.Project("reaches-dist", "1.0", "poetry", py, [gen_project.FileSpec("reaches_dist/__init__.py", b"x = 1\n")],
                            None, ["corpus"], {"module": "reaches_dist", "layout": "package-flat", "include": ["dist/*"]})
    base = bc.scratch("pcv-c08d-")
    try:
        root = bc.materialise(p, parent=str(base))
        (base / "o1").mkdir()
        (base / "o2").mkdir()
        b1 = bc.build(root, "sdist", "builder", base / "o1", None, want_log=False)
        first = b1.path.read_bytes() if b1.ok else b""
        leave_artefacts(root, p, random.Random(0))          # a previous build's dist/*.whl, dist/*.tar.gz, build/, egg-info
        left = sorted(x.name for x in (root / "dist").iterdir())
        b2 = bc.build(root, "sdist", "builder", base / "o2", None, want_log=False)
        second = b2.path.read_bytes() if b2.ok else b""
        names2 = [m["name"] for m in bc.read_sdist(b2.path).members] if b2.ok else []
        rep = core.run_driver([core.line("bavoid", pack(*leftover_tops(p)), *glob_specs(p)),
                               core.line("bgsel", pack("", "dist/*", "0"), *["dist/" + x for x in left])])
        model_reaches = "0" in rep[0][1:] and rep[1] == ["ok", "1" * len(left)]
        real_reaches = all(any(n.endswith("/dist/" + x) for n in names2) for x in left)
        ctx.case("reaches-dist", nontrivial=b1.ok and b2.ok, sample={"include": ["dist/*"], "second_build_members": names2[:6],
                                                                 "identical": first == second})
        ctx.count("out-of-quantifier:include-reaches-dist:" + ("differs" if first != second else "identical"))
        dis = 0
        if model_reaches != real_reaches or (real_reaches and first == second):
            dis = 1
            ctx.disagree("reaches-dist", {"include": ["dist/*"]}, {"selected": real_reaches, "identical": first == second}, rep)
        ctx.stream("leftover-boundary", 1, dis)
    finally:
        bc.rmtree(base)


def time_stream(ctx: core.Ctx) -> None:
    """SOURCE_DATE_EPOCH parsing and calendar: model vs the real properties on a builder object (no build)"""
    from poetry.core.factory import Factory
    from poetry.core.masonry.builders.sdist import SdistBuilder
    from poetry.core.masonry.builders.wheel import WheelBuilder
    rnd = ctx.rng
    bc._quiet()
    p = gen_project.generate(random.Random(1), {"layout:module-flat", "style:poetry"})
    base = bc.scratch("pcv-c08t-")
    try:
        root = bc.materialise(p, parent=str(base))
        poetry = Factory().create_poetry(root, with_groups=False)
        vals: list[str | None] = [None, "", "0", "-1", "x", "1.5", "1e9", " 7 ", "+8", "1_0", "1__0", "_1", "1_", "0x10", "315532799",
                                  "315532800", "315532801", "4354819199", "-67768040609740800", "-67768040609740801",
                                  "67768036191676799", "67768036191676800", "9" * 30, "1" * 4300, "1" * 4301, "0" * 5000, "\t12\n",
                                  "12 3", "--1", "+-1", "946684799", "951782400", "68169600", "1709164800", "4102444800"]
        for _ in range(ctx.budget(300, 4000)):
            k = rnd.random()
            if k < 0.5:
                vals.append(str(rnd.randint(-10 ** 10, 5 * 10 ** 9)))
            elif k < 0.7:
                vals.append(str(rnd.randint(-10 ** 17, 10 ** 17)))
            elif k < 0.85:
                d = rnd.randint(-800000, 800000)
                vals.append(str(d * 86400 + rnd.choice([-1, 0, 1, 86399])))
            else:
                s = str(rnd.randint(0, 10 ** 10))
                i = rnd.randrange(len(s) + 1)
                vals.append(s[:i] + rnd.choice(["_", " ", "a", ".", "-", "+", "__"]) + s[i:])
        lines = []
        impl = []
        for v in vals:
            with bc.env(environ={"SOURCE_DATE_EPOCH": v}):
                wb, sb = WheelBuilder(poetry), SdistBuilder(poetry)
                try:
                    w = "ok:" + ",".join(map(str, wb._zipfile_date_time))
                except (OSError, OverflowError):
                    w = "err:runtime"
                except Exception as e:  # noqa: BLE001
                    w = "err:" + type(e).__name__
                try:
                    s = "ok:" + str(sb._archive_mtime)
                except Exception as e:  # noqa: BLE001
                    s = "err:" + type(e).__name__
            impl.append((w, s))
            lines.append(core.line("btime", "wheel", "0" if v is None else "1", v or ""))
            lines.append(core.line("btime", "sdist", "0" if v is None else "1", v or ""))
        rep = core.run_driver(lines)
        dis = 0
        for i, v in enumerate(vals):
            mw, ms = ":".join(rep[2 * i]), ":".join(rep[2 * i + 1])
            if (mw, ms) != impl[i]:
                dis += 1
                ctx.disagree("sde-parse", v if v is None or len(v) < 80 else v[:20] + f"…({len(v)})", impl[i], (mw, ms))
            ctx.evaluations += 1
        ctx.stream("sde-parse", len(vals), dis)
    finally:
        bc.rmtree(base)


def correspondence(ctx: core.Ctx) -> None:
    time_stream(ctx)
    reaches_dist_corpus(ctx)
    hashseed_case(ctx, two_bases_project(), (1, 3, 4, 6), "hashseed")   # seeds that gave both orders before 15ba16f
    rnd = ctx.rng
    n = ctx.budget(25, 250)
    for i in range(n):
        p = gen_project.generate(rnd)
        for f in p.features:
            ctx.count("feature:" + f)
        sdes = sde_values(rnd)
        rnd.shuffle(sdes)
        for kind, sde in zip(PERTURBATIONS, sdes + [rnd.choice(sdes)]):
            check_case(ctx, p, kind, sde, rnd.getrandbits(32), "rebuild")
        if p.meta.get("generate_setup"):
            setup_stream(ctx, p, rnd.getrandbits(16))
        if i < ctx.budget(4, 60):
            hashseed_case(ctx, p, (rnd.randint(1, 1000), rnd.randint(1001, 2000)), "hashseed")


def search(ctx: core.Ctx) -> None:
    rnd = ctx.rng
    for _ in range(ctx.budget(40, 200)):
        if ctx.violations:
            return
        p = gen_project.generate(rnd)
        sdes = sde_values(rnd)
        for kind in PERTURBATIONS:
            check_case(ctx, p, kind, rnd.choice(sdes), rnd.getrandbits(32), "search")


def replay(ctx: core.Ctx, payload: dict[str, Any]) -> bool:
    w = payload.get("witness", payload)
    before = len(ctx.violations)
    p = gen_project.Project.from_json(w["project"])
    if w.get("perturbation") == "setup-listing":
        setup_stream(ctx, p, int(w.get("pseed", 0)))
        return len(ctx.violations) > before
    if w.get("perturbation") == "hashseed":
        hashseed_case(ctx, p, tuple(w.get("seeds", [1, 2])), "replay")
        return len(ctx.violations) > before
    check_case(ctx, p, w["perturbation"], w.get("sde"), int(w.get("pseed", 0)), "replay")
    return len(ctx.violations) > before
