"""Engine shared by C07 / C13 / C17 / C11: runs marker operations through the real code and the Lean model,
compares results structurally (dump, text, flags, truth vector, error class) and returns the implementation-side
records so that each property plug-in can evaluate its own oracle on the real code."""
from __future__ import annotations

from typing import Any, Callable

from . import core, gen_marker as G, marker_common as MC
from . import vc_common as V

CASE_LIMIT = 4.0  # seconds per real-code call (some 8-10 leaf pairs take much longer; counted, never a verdict)


def impl_parse(text: str) -> Any:
    from poetry.core.version.markers import parse_marker
    return parse_marker(text)


def _impl_call(case: dict[str, Any]) -> Any:
    from poetry.core.version import markers as M
    k = case["kind"]
    if k == "parse":
        return impl_parse(case["a"])
    if k == "binop":
        a, b = impl_parse(case["a"]), impl_parse(case["b"])
        return getattr(a, case["op"])(b)
    if k == "unop":
        a = impl_parse(case["a"])
        op = case["op"]
        if op == "invert":
            return a.invert()
        if op == "cnf":
            return M.cnf(a)
        if op == "dnf":
            return M.dnf(a)
        if op == "noextras":
            return a.without_extras()
    if k == "only":
        return impl_parse(case["a"]).only(*case["names"])
    if k == "excl":
        return impl_parse(case["a"]).exclude(case["name"])
    if k == "reduce":
        from poetry.core.constraints.version import parse_constraint
        return impl_parse(case["a"]).reduce_by_python_constraint(parse_constraint(case["c"]))
    if k == "gpc":
        from poetry.core.packages.utils.utils import get_python_constraint_from_marker
        return get_python_constraint_from_marker(impl_parse(case["a"]))
    if k == "cnm":
        from poetry.core.constraints.version import parse_constraint
        from poetry.core.packages.utils.utils import create_nested_marker
        return create_nested_marker(case["name"], parse_constraint(case["c"]))
    raise ValueError("bad case kind " + k)


def model_line(case: dict[str, Any], eenc: list[str], probes: list[str]) -> str:
    k = case["kind"]
    if k == "parse":
        return core.line("mparse", case["a"], *eenc)
    if k == "binop":
        return core.line("mop", case["op"], case["a"], case["b"], *eenc)
    if k == "unop":
        return core.line("mun", case["op"], case["a"], *eenc)
    if k == "only":
        return core.line("monly", case["a"], ",".join(case["names"]), *eenc)
    if k == "excl":
        return core.line("mexcl", case["a"], case["name"], *eenc)
    if k == "reduce":
        return core.line("mreduce", case["a"], case["c"], *eenc)
    if k == "gpc":
        return core.line("gpc", case["a"], *probes)
    if k == "cnm":
        return core.line("cnm", case["name"], case["c"])
    raise ValueError(k)


def run_cases(ctx: core.Ctx, cases: list[dict[str, Any]], stream: str, envs: list[dict[str, Any]],
              probes: list[str] | None = None, keep_caches: bool = False) -> list[dict[str, Any]]:
    """returns one record per case: {case, ok, result|error, text, bits, timeout, model}.
    `keep_caches`: the memo tables of the real code are reset once, at the start, and the cases then run one after the
    other on whatever state the earlier ones left (call-history streams); otherwise they are reset before every case."""
    eenc = [G.enc_env(e) for e in envs]
    probes = probes or []
    pv = [V.parse_probe(p) for p in probes]
    model = core.run_driver_split([model_line(c, eenc, probes) for c in cases])
    out: list[dict[str, Any]] = []
    dis = 0
    for case, mo in zip(cases, model):
        rec: dict[str, Any] = {"case": case, "model": mo, "timeout": False}
        if not keep_caches or not out:
            MC.clear_caches()
        try:
            r = core.with_alarm(CASE_LIMIT, lambda: _impl_call(case))  # noqa: B023
            rec["ok"] = True
            rec["result"] = r
        except core.Timeout:
            ctx.timeouts += 1
            ctx.count("timeout:" + case["kind"])
            rec["ok"] = False
            rec["timeout"] = True
            rec["error"] = "timeout"
            out.append(rec)
            continue
        except Exception as e:  # noqa: BLE001
            rec["ok"] = False
            rec["error"] = MC.errname(e)
            rec["exc"] = repr(e)[:200]
        # ---- canonical implementation report
        k = case["kind"]
        if rec["ok"]:
            r = rec["result"]
            if k == "gpc":
                io = ["ok", *V.report(r, pv)]
            elif k == "cnm":
                io = ["ok", r]
            else:
                try:
                    text = str(r)
                except Exception as e:  # noqa: BLE001
                    text = "!" + MC.errname(e)
                rec["text"] = text
                rec["bits"] = MC.truth(r, envs)
                io = ["ok", MC.mdump(r), text, ("1" if r.is_any() else "0") + ("1" if r.is_empty() else "0"), rec["bits"]]
        else:
            io = ["err", rec["error"]]
        rec["io"] = io
        # ---- compare with the model
        sig = stream + ":" + k + (":" + case.get("op", "") if "op" in case else "")
        if mo[0] == "perr":
            # the model could not parse an operand: compare with the implementation's parse failure
            if rec["ok"] or rec["error"] != mo[1]:
                if mo[1] == "unmodelled":
                    ctx.count("unmodelled")
                else:
                    dis += 1
                    ctx.disagree(sig + ":operand-parse", case, io[:3], mo)
        elif mo[0] == "err":
            if mo[1] in ("unmodelled", "fuel", "timeout"):
                ctx.count("model:" + mo[1])
            elif io[0] != "err" or io[1] != mo[1]:
                dis += 1
                ctx.disagree(sig, case, io[:3], mo)
        elif mo[0] == "ok":
            if io[0] != "ok":
                dis += 1
                ctx.disagree(sig, case, io, mo[:3])
            elif k in ("gpc", "cnm"):
                if io != mo:
                    dis += 1
                    ctx.disagree(sig, case, io, mo)
            else:
                if io[1:4] != mo[1:4]:
                    dis += 1
                    ctx.disagree(sig + ":structure", case, io[1:4], mo[1:4])
                else:
                    ib, mb = MC.split_bits(io[4]), MC.split_bits(mo[4])
                    bad = [j for j, (x, y) in enumerate(zip(ib, mb)) if y != "u" and x != y]
                    if bad:
                        dis += 1
                        ctx.disagree(sig + ":truth", {"case": case, "env": envs[bad[0]]}, ib[bad[0]], mb[bad[0]])
        else:
            dis += 1
            ctx.disagree(sig + ":protocol", case, io[:2], mo)
        out.append(rec)
    ctx.stream(stream, len(cases), dis)
    return out


TIMEOUT = "timeout"


def truth_of(text: str, envs: list[dict[str, Any]]) -> str | None:
    """truth vector of parse_marker(text) on the real code; None if the text does not parse; the sentinel TIMEOUT if the
    real code needed longer than the per-case limit (a slow box must never look like a rejection)"""
    try:
        m = core.with_alarm(3 * CASE_LIMIT, lambda: impl_parse(text))
    except core.Timeout:
        return TIMEOUT
    except Exception:  # noqa: BLE001
        return None
    try:
        return core.with_alarm(3 * CASE_LIMIT, lambda: MC.truth(m, envs))
    except core.Timeout:
        return TIMEOUT
